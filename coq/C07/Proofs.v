(* C07 — proofs about the model in Model.v. *)
From Coq Require Import List ZArith Lia Bool.
Import ListNotations.
From V Require Import Base.U32 Base.Bytes Base.Iface Gen.RelayConsts C07.Model.
Local Open Scope Z_scope.

(* ---------- side conditions on the generated constants ---------- *)
Record consts_facts : Prop := {
  cf_div : 0 < CD_DIV; cf_div2 : 2 <= CD_DIV;
  cf_min : 0 < CD_MIN;
  cf_minmax : CD_MIN <= CD_MAX;
  cf_knee : CD_MIN * CD_DIV <= 4294967296;
  cf_hi : HI = 1; cf_lo : LO = 0;
  cf_dt : 0 <= DOUBLE_TRY_US;
  cf_save : 0 < SAVE_DELAY_MS;
  cf_poll : 0 < UPTIME_POLL_MS;
  cf_t2 : ST_T2_COUNT = 8 /\ T2_COUNT = 8;
  cf_rmax : RELAY_MAX = 8
}.
Lemma consts_ok : consts_facts.
Proof. constructor; vm_compute; repeat split; congruence. Qed.

Lemma In_upd_idx {A} (l : list A) n v x d : In x (upd l n v) -> x = v \/ exists j, j <> n /\ (j < length l)%nat /\ nth j l d = x.
Proof.
  revert n; induction l as [|h l IH]; intros [|n] H; cbn in *; try contradiction.
  - destruct H as [<-|H]; auto. right. destruct (In_nth _ _ d H) as (j & A1 & A2). exists (S j). repeat split; auto; lia.
  - destruct H as [<-|H]. + right. exists 0%nat. repeat split; auto; lia.
    + apply IH in H. destruct H as [->|(j & A1 & A2 & A3)]; auto. right. exists (S j). repeat split; auto; lia.
Qed.
(* relay operation = 10 us + RELAY_DOUBLE_TRY + 10 us of busy waiting *)
Definition OP : Z := 10 + DOUBLE_TRY_US + 10.

(* ---------- lists ---------- *)
Lemma upd_length {A} (l : list A) n v : length (upd l n v) = length l.
Proof. revert n; induction l; intros [|n]; cbn; auto. Qed.
Lemma nth_upd_eq {A} (l : list A) n v d : (n < length l)%nat -> nth n (upd l n v) d = v.
Proof. revert n; induction l; intros [|n] H; cbn in *; try lia; auto. apply IHl; lia. Qed.
Lemma nth_upd_ne {A} (l : list A) n m v d : n <> m -> nth m (upd l n v) d = nth m l d.
Proof. revert n m; induction l; intros [|n] [|m] H; cbn; auto; try congruence. Qed.
Lemma In_upd {A} (l : list A) n v x : In x (upd l n v) -> x = v \/ In x l.
Proof.
  revert n; induction l; intros [|n] H; cbn in *; auto.
  - destruct H; auto.
  - destruct H; auto. apply IHl in H. tauto.
Qed.

(* ---------- the clock (uptime.c), counter wraps included ----------
   A = cnt0 + (t - tb) is the unwrapped microsecond count at true time t.  uptime_usec keeps (upc, upl) = (A / 2^32,
   A mod 2^32) of its last reading as long as two readings are less than one counter period apart, and returns
   upc * (2^32 - 1) + upl = A - A / 2^32: the device's clock loses one microsecond per wrap (C19: usec_at_accurate).
   WB bounds the number of wraps since the last boot; with WB = 0 this is the plain "no wrap" hypothesis. *)
Class Wraps := { WB : Z; WB_range : 0 <= WB < 1073741824 }.
Definition up64 (a : Z) : Z := a - a / 4294967296.
Definition rd (s : st) (t : Z) : Z := up64 (cnt0 s + (t - tb s)) / 1000.      (* millisecond reading at true time t *)
(* every reading of the clock came less than one counter period after the previous one *)
Definition Polled (l : list out) : Prop := forall p a, In (GPoll p a) l -> a - p < 4294967296.
Definition ClockOK (s : st) : Prop :=
  0 <= upl s < 4294967296 /\ 0 <= upc s /\ upc s * 4294967296 + upl s <= cnt0 s + (now s - tb s) /\
  0 <= cnt0 s /\ tb s <= now s.

Lemma up64_mono a b : a <= b -> up64 a <= up64 b.
Proof.
  intros H. unfold up64.
  pose proof (Z.div_mod a 4294967296 ltac:(lia)). pose proof (Z.div_mod b 4294967296 ltac:(lia)).
  pose proof (Z.mod_pos_bound a 4294967296 ltac:(lia)). pose proof (Z.mod_pos_bound b 4294967296 ltac:(lia)).
  pose proof (Z.div_le_mono a b 4294967296 ltac:(lia) H). lia.
Qed.
Lemma up64_nonneg a : 0 <= a -> 0 <= up64 a.
Proof. intros H. pose proof (up64_mono 0 a H). unfold up64 in *. cbn in H0. exact H0. Qed.
Lemma up64_le a : 0 <= a -> up64 a <= a.
Proof. intros H. unfold up64. pose proof (Z.div_pos a 4294967296 H ltac:(lia)). lia. Qed.
(* the device clock never runs fast, and is slow by at most the number of wraps *)
Lemma up64_diff a b : a <= b -> up64 b - up64 a <= b - a.
Proof. intros H. unfold up64. pose proof (Z.div_le_mono a b 4294967296 ltac:(lia) H). lia. Qed.
Lemma up64_diff_lo a b w : 0 <= a -> a <= b -> b < (w + 1) * 4294967296 -> b - a - w <= up64 b - up64 a.
Proof.
  intros Ha H Hb. unfold up64. pose proof (Z.div_pos a 4294967296 Ha ltac:(lia)).
  assert (b / 4294967296 < w + 1) by (apply Z.div_lt_upper_bound; lia). lia.
Qed.

Lemma rd_mono s a b : a <= b -> rd s a <= rd s b.
Proof. intros. unfold rd. apply Z.div_le_mono; [lia|]. apply up64_mono. lia. Qed.
(* a difference of d in the readings means more than d-1 ms of true time ... *)
Lemma rd_diff_lo s a b d : a <= b -> d <= rd s b - rd s a -> (d - 1) * 1000 < b - a.
Proof.
  unfold rd. intros Hab H.
  pose proof (up64_diff (cnt0 s + (a - tb s)) (cnt0 s + (b - tb s)) ltac:(lia)) as D.
  pose proof (Z.div_mod (up64 (cnt0 s + (b - tb s))) 1000 ltac:(lia)).
  pose proof (Z.div_mod (up64 (cnt0 s + (a - tb s))) 1000 ltac:(lia)).
  pose proof (Z.mod_pos_bound (up64 (cnt0 s + (b - tb s))) 1000 ltac:(lia)).
  pose proof (Z.mod_pos_bound (up64 (cnt0 s + (a - tb s))) 1000 ltac:(lia)).
  lia.
Qed.
(* ... and less than d+1 ms plus one microsecond per wrap of the counter *)
Lemma rd_diff_hi s a b d w :
  0 <= cnt0 s + (a - tb s) -> a <= b -> cnt0 s + (b - tb s) < (w + 1) * 4294967296 ->
  rd s b - rd s a <= d -> b - a < (d + 1) * 1000 + w.
Proof.
  unfold rd. intros Ha Hab Hb H.
  pose proof (up64_diff_lo (cnt0 s + (a - tb s)) (cnt0 s + (b - tb s)) w Ha ltac:(lia) Hb) as D.
  pose proof (Z.div_mod (up64 (cnt0 s + (b - tb s))) 1000 ltac:(lia)).
  pose proof (Z.div_mod (up64 (cnt0 s + (a - tb s))) 1000 ltac:(lia)).
  pose proof (Z.mod_pos_bound (up64 (cnt0 s + (b - tb s))) 1000 ltac:(lia)).
  pose proof (Z.mod_pos_bound (up64 (cnt0 s + (a - tb s))) 1000 ltac:(lia)).
  lia.
Qed.

Section W.
Context {wr : Wraps}.
(* at most WB wraps since the last boot, and (unless WB = 0) the clock was polled in time *)
Definition NWw (s : st) : Prop :=
  cnt0 s + (now s - tb s) < (WB + 1) * 4294967296 /\ (WB = 0 \/ Polled (outs s)).

Lemma uptime_usec_spec s : ClockOK s -> NWw (fst (uptime_usec s)) ->
  uptime_usec s =
    (emit (GPoll (upc s * 4294967296 + upl s) (cnt0 s + (now s - tb s)))
          (set_upl ((cnt0 s + (now s - tb s)) mod 4294967296) (set_upc ((cnt0 s + (now s - tb s)) / 4294967296) s)),
     up64 (cnt0 s + (now s - tb s))).
Proof.
  intros (Hl & Hc & HL & H0 & Ht) [Hn Hp]. pose proof WB_range as HW.
  unfold uptime_usec in *. cbn [fst emit set_outs outs cnt0 now tb set_upl set_upc] in Hn, Hp.
  unfold counter, u32.
  set (A := cnt0 s + (now s - tb s)) in *.
  assert (Gap : A - (upc s * 4294967296 + upl s) < 4294967296).
  { destruct Hp as [E|Hp]; [rewrite E in Hn; lia|]. apply Hp. left. reflexivity. }
  pose proof (Z.div_mod A 4294967296 ltac:(lia)) as DM. pose proof (Z.mod_pos_bound A 4294967296 ltac:(lia)) as MB.
  assert (Q : A / 4294967296 < WB + 1) by (apply Z.div_lt_upper_bound; lia).
  assert (Q0 : 0 <= A / 4294967296) by (apply Z.div_pos; lia).
  destruct (A mod 4294967296 <? upl s) eqn:E.
  - apply Z.ltb_lt in E. assert (Eq : A / 4294967296 = upc s + 1) by nia.
    rewrite (Z.mod_small (upc s + 1)) by lia. rewrite <- Eq. unfold up64. f_equal. lia.
  - apply Z.ltb_ge in E. assert (Eq : A / 4294967296 = upc s) by nia.
    rewrite <- Eq. unfold up64. f_equal. lia.
Qed.
Lemma uptime_msec_spec s : ClockOK s -> NWw (fst (uptime_msec s)) ->
  uptime_msec s =
    (emit (GPoll (upc s * 4294967296 + upl s) (cnt0 s + (now s - tb s)))
          (set_upl ((cnt0 s + (now s - tb s)) mod 4294967296) (set_upc ((cnt0 s + (now s - tb s)) / 4294967296) s)),
     rd s (now s)).
Proof.
  intros C N. unfold uptime_msec in *. destruct (uptime_usec s) as [s1 u] eqn:E. cbn [fst] in N.
  assert (N' : NWw (fst (uptime_usec s))) by (rewrite E; exact N).
  rewrite (uptime_usec_spec s C N') in E. injection E as <- <-. reflexivity.
Qed.

(* ---------- passive steps: everything that neither touches the slot table nor the shared timer ---------- *)
Definition noghost (o : out) : Prop :=
  match o with GArm _ _ _ _ | GFinish _ _ _ _ _ _ _ | GEvalStart _ _ | GEvalEnd _ => False | _ => True end.

Record passive (s s' : st) : Prop := {
  pa_slots : slots s' = slots s; pa_delay : delay s' = delay s; pa_tcd : tcd s' = tcd s;
  pa_cnt0 : cnt0 s' = cnt0 s; pa_tb : tb s' = tb s; pa_chfl : chfl s' = chfl s; pa_time2 : time2 s' = time2 s;
  pa_li : li s' = li s; pa_clk : ClockOK s -> ClockOK s';
  pa_conn : conn s' = conn s; pa_reg : reg s' = reg s;
  pa_now : now s <= now s';
  pa_seq : seqc s <= seqc s';
  pa_outs : exists add, outs s' = add ++ outs s /\ Forall noghost add
}.
Lemma passive_refl s : passive s s.
Proof. constructor; try reflexivity; try lia; auto. exists []; split; auto. Qed.
Lemma passive_trans s1 s2 s3 : passive s1 s2 -> passive s2 s3 -> passive s1 s3.
Proof.
  intros [] []; constructor; try congruence; try lia; auto.
  destruct pa_outs0 as (a1 & E1 & F1), pa_outs1 as (a2 & E2 & F2).
  exists (a2 ++ a1); split. - rewrite E2, E1, app_assoc; reflexivity. - apply Forall_app; auto.
Qed.

Ltac pas1 := constructor; cbn; try reflexivity; try lia; try (unfold ClockOK; cbn; intros; lia).
Lemma passive_emit o s : noghost o -> passive s (emit o s).
Proof. intros; pas1. exists [o]; split; auto. Qed.
Lemma passive_delay n s : 0 <= n -> passive s (delay_us n s).
Proof. intros; pas1. exists []; split; auto. Qed.
Lemma passive_gpio_write p v s : passive s (gpio_write p v s).
Proof.
  unfold gpio_write. destruct (Bool.eqb _ _). - apply passive_refl.
  - pas1. eexists [_]; split; [reflexivity|]. repeat constructor.
Qed.
Lemma passive_t_disarm_sv s : passive s (t_disarm TSV s).
Proof. pas1. exists []; auto. Qed.
Lemma passive_t_arm_sv ms r s : passive s (t_arm TSV ms r s).
Proof. pas1. exists []; auto. Qed.
Lemma passive_do_save s : passive s (do_save s).
Proof. pas1. eexists [_]; split; [reflexivity|]. repeat constructor. Qed.
Lemma passive_save_state ms s : passive s (save_state ms s).
Proof.
  unfold save_state. destruct (0 <? ms).
  - eapply passive_trans; [apply passive_t_disarm_sv | apply passive_t_arm_sv].
  - eapply passive_trans; [apply passive_t_disarm_sv | apply passive_do_save].
Qed.
Lemma passive_set_ram_relay v s : passive s (set_ram_relay v s).
Proof. pas1. exists []; auto. Qed.
Lemma passive_set_ram_t2 v s : passive s (set_ram_t2 v s).
Proof. pas1. exists []; auto. Qed.
Lemma passive_t2_set ch v s : passive s (t2_set ch v s).
Proof. unfold t2_set. destruct (_ <? _). apply passive_set_ram_t2. apply passive_refl. Qed.

Lemma passive_relay_core port b s :
  passive s (delay_us 10 (delay_us DOUBLE_TRY_US (gpio_write port b (delay_us 10 s)))).
Proof.
  destruct consts_ok.
  apply passive_trans with (s2 := delay_us 10 s); [apply passive_delay; lia|].
  apply passive_trans with (s2 := gpio_write port b (delay_us 10 s)); [apply passive_gpio_write|].
  apply passive_trans with (s2 := delay_us DOUBLE_TRY_US (gpio_write port b (delay_us 10 s))); apply passive_delay; lia.
Qed.
Lemma passive_relay_hi c port hi s : passive s (relay_hi c port hi s).
Proof.
  unfold relay_hi.
  destruct (find_gpio (c_relays c) 0 port) as [[a r]|]; [|apply passive_relay_core].
  destruct (_ || _); [|apply passive_relay_core].
  eapply passive_trans; [apply passive_relay_core|].
  eapply passive_trans; [apply passive_set_ram_relay|]. apply passive_save_state.
Qed.
Lemma passive_do_call k s : passive s (do_call k s).
Proof.
  unfold do_call. destruct (_ <? _). - pas1. exists []; auto.
  - apply passive_emit; exact I.
Qed.
Lemma passive_value_changed ch v s : passive s (value_changed ch v s).
Proof. unfold value_changed. destruct (reg s). apply passive_do_call. apply passive_refl. Qed.
Lemma passive_set_result ch sd ok s : passive s (set_result ch sd ok s).
Proof. unfold set_result. destruct (conn s). apply passive_do_call. apply passive_refl. Qed.
Lemma passive_ext_changed c ch s : passive s (ext_changed c ch s).
Proof. unfold ext_changed. destruct (reg s). destruct (get_state _ _ _) as [[? ?] ?]. apply passive_do_call. apply passive_refl. Qed.
Lemma passive_chan_set_value c port v ch s : passive s (fst (chan_set_value c port v ch s)).
Proof.
  unfold chan_set_value. cbn [fst].
  eapply passive_trans; [apply passive_relay_hi | apply passive_value_changed].
Qed.

(* ---------- adaptive period ---------- *)
Lemma clampd_range l : CD_MIN <= clampd l <= CD_MAX.
Proof.
  destruct consts_ok. unfold clampd.
  destruct (_ <? CD_MIN) eqn:E1; [lia|]. apply Z.ltb_ge in E1.
  destruct (CD_MAX <? _) eqn:E2; [lia|]. apply Z.ltb_ge in E2. lia.
Qed.
(* below the knee the period is the minimum; above it at most a tenth of what is left *)
Lemma clampd_small l : l < CD_MIN * CD_DIV -> clampd l = CD_MIN.
Proof.
  destruct consts_ok. intros H. unfold clampd.
  assert (l / CD_DIV < CD_MIN) by (apply Z.div_lt_upper_bound; lia).
  destruct (_ <? CD_MIN) eqn:E1; [reflexivity|]. apply Z.ltb_ge in E1. lia.
Qed.
Lemma clampd_large l : CD_MIN * CD_DIV <= l -> clampd l * CD_DIV <= l.
Proof.
  destruct consts_ok. intros H. unfold clampd.
  assert (CD_MIN <= l / CD_DIV) by (apply Z.div_le_lower_bound; lia).
  assert (l / CD_DIV * CD_DIV <= l) by (pose proof (Z.mul_div_le l CD_DIV ltac:(lia)); lia).
  destruct (_ <? CD_MIN) eqn:E1; [apply Z.ltb_lt in E1; lia|].
  destruct (CD_MAX <? _) eqn:E2; [apply Z.ltb_lt in E2; nia|]. lia.
Qed.

Lemma min_delay_spec l : forall acc, (acc = 0 \/ CD_MIN <= acc) ->
  let d := min_delay l acc in
  (d = 0 \/ CD_MIN <= d) /\ (acc <> 0 -> d <= acc /\ d <> 0) /\
  (forall x, In x l -> active x = true -> d <> 0 /\ d <= clampd (s_left x)) /\
  (d = 0 -> acc = 0 /\ forall x, In x l -> active x = false).
Proof.
  pose proof consts_ok as [].
  induction l as [|y l IH]; intros acc Hacc; cbn [min_delay].
  - cbn. repeat split; auto; try lia; try contradiction; intros; try contradiction.
  - set (acc' := if active y then _ else acc).
    assert (Hacc' : acc' = 0 \/ CD_MIN <= acc').
    { unfold acc'. destruct (active y); auto. pose proof (clampd_range (s_left y)).
      destruct ((acc =? 0) || _); lia. }
    assert (Hle : acc <> 0 -> acc' <= acc /\ acc' <> 0).
    { unfold acc'. intros. destruct (active y); [|lia]. pose proof (clampd_range (s_left y)).
      destruct (acc =? 0) eqn:E0; [apply Z.eqb_eq in E0; lia|]. cbn [orb].
      destruct (_ <? acc) eqn:E1; [apply Z.ltb_lt in E1|apply Z.ltb_ge in E1]; lia. }
    assert (Hy : active y = true -> acc' <> 0 /\ acc' <= clampd (s_left y)).
    { unfold acc'. intros ->. pose proof (clampd_range (s_left y)).
      destruct (acc =? 0) eqn:E0; cbn [orb]; [lia|].
      destruct (_ <? acc) eqn:E1; [apply Z.ltb_lt in E1|apply Z.ltb_ge in E1]; lia. }
    specialize (IH acc' Hacc'). cbv zeta in IH. destruct IH as (I1 & I2 & I3 & I4).
    split; [auto|]. split; [|split].
    + intros Hn. specialize (Hle Hn). destruct Hle as [A B]. specialize (I2 B). lia.
    + intros x [<-|Hin] Hact.
      * destruct (Hy Hact) as [A B]. specialize (I2 A). lia.
      * apply I3; auto.
    + intros Hd. specialize (I4 Hd). destruct I4 as [A B]. split.
      * destruct (Z.eq_dec acc 0); auto. specialize (Hle n); lia.
      * intros x [<-|Hin]; auto. destruct (active y) eqn:E; auto. destruct (Hy eq_refl); lia.
Qed.

(* exact duration of the operations *)
Lemma now_save_state ms s : now (save_state ms s) = now s.
Proof. unfold save_state. destruct (0 <? ms); reflexivity. Qed.
Lemma now_gpio_write p v s : now (gpio_write p v s) = now s.
Proof. unfold gpio_write. destruct (Bool.eqb _ _); reflexivity. Qed.
Lemma now_relay_core port b s :
  now (delay_us 10 (delay_us DOUBLE_TRY_US (gpio_write port b (delay_us 10 s)))) = now s + OP.
Proof. cbn [now delay_us set_now]. rewrite now_gpio_write. cbn [now delay_us set_now]. unfold OP. lia. Qed.
Lemma now_relay_hi c port hi s : now (relay_hi c port hi s) = now s + OP.
Proof.
  unfold relay_hi.
  destruct (find_gpio (c_relays c) 0 port) as [[a r]|]; [|apply now_relay_core].
  destruct (_ || _); [|apply now_relay_core].
  rewrite now_save_state. cbn [now set_ram_relay]. apply now_relay_core.
Qed.
Lemma now_do_call k s : now (do_call k s) = now s.
Proof. unfold do_call. destruct (_ <? _); reflexivity. Qed.
Lemma now_value_changed ch v s : now (value_changed ch v s) = now s.
Proof. unfold value_changed. destruct (reg s); auto using now_do_call. Qed.
Lemma now_set_result ch sd ok s : now (set_result ch sd ok s) = now s.
Proof. unfold set_result. destruct (conn s); auto using now_do_call. Qed.
Lemma now_ext_changed c ch s : now (ext_changed c ch s) = now s.
Proof. unfold ext_changed. destruct (reg s); auto. destruct (get_state _ _ _) as [[? ?] ?]. apply now_do_call. Qed.
Lemma now_chan_set_value c port v ch s : now (fst (chan_set_value c port v ch s)) = now s + OP.
Proof. unfold chan_set_value. cbn [fst]. rewrite now_value_changed. apply now_relay_hi. Qed.
Lemma now_t2_set ch v s : now (t2_set ch v s) = now s.
Proof. unfold t2_set. destruct (_ <? _); reflexivity. Qed.

(* ---------- configuration and state invariants ---------- *)
Record wf_cfg (c : cfg) : Prop := {
  wf_chan : forall r, In r (c_relays c) -> 0 <= r_chan r < 8;
  wf_gpio : forall r, In r (c_relays c) -> 0 <= r_gpio r < 16;
  wf_late : forall j, In j (c_late c) -> 0 <= j;
  wf_boot : 0 <= c_boot c; wf_boot2 : 0 <= c_boot2 c;
  wf_len : (length (c_relays c) <= 8)%nat          (* RELAY_MAX_COUNT *)
}.

Record SlotOK (s : st) (x : slot) : Prop := {
  so_chan : 0 <= s_chan x < 255;
  so_left : 0 < s_left x <= g_dur x;
  so_dur : g_dur x < 4294967296;
  so_acct : s_left x = g_dur x - (s_last x - g_u0 x);      (* what is left + what was consumed = the duration *)
  so_last : s_last x = rd s (g_tl x);
  so_u0 : g_u0 x = rd s (g_t0 x);
  so_t : tb s <= g_t0 x /\ g_t0 x <= g_tl x /\ g_tl x <= now s
}.
Definition TmrOK (s : st) : Prop :=
  0 <= delay s /\ (delay s = 0 -> t_on (tcd s) = false) /\
  (0 < delay s -> t_on (tcd s) = true /\ t_per (tcd s) = delay s * 1000).
Definition slot_at (s : st) (i : nat) : slot := nth i (slots s) slot_free.
Record Inv (s : st) : Prop := {
  i_len : length (slots s) = 8%nat;
  i_clk : ClockOK s;
  i_free : forall x, In x (slots s) -> s_chan x = 255 \/ active x = true;
  i_ok : forall x, In x (slots s) -> active x = true -> SlotOK s x;
  i_uniq : forall i j, (i < 8)%nat -> (j < 8)%nat -> s_chan (slot_at s i) = s_chan (slot_at s j) ->
                       s_chan (slot_at s i) <> 255 -> i = j;
  i_tmr : TmrOK s
}.

Lemma SlotOK_passive s s' x : passive s s' -> SlotOK s x -> SlotOK s' x.
Proof.
  intros P [] . destruct P. constructor; auto; unfold rd in *; try rewrite pa_cnt1, pa_tb0; auto. lia.
Qed.
Lemma Inv_passive s s' : passive s s' -> Inv s -> Inv s'.
Proof.
  intros P I. pose proof P as P'. destruct P, I. unfold slot_at, TmrOK, ClockOK in *.
  constructor; unfold slot_at, TmrOK, ClockOK; try rewrite pa_slots0; try rewrite pa_delay0; try rewrite pa_tcd0; auto.
  - intros. eapply SlotOK_passive; eauto.
Qed.
Lemma Inv_ext s s' :
  slots s' = slots s -> delay s' = delay s -> tcd s' = tcd s -> cnt0 s' = cnt0 s -> tb s' = tb s ->
  now s' = now s -> upc s' = upc s -> upl s' = upl s -> Inv s -> Inv s'.
Proof.
  intros E1 E2 E3 E4 E5 E6 E7 E8 []. unfold TmrOK, ClockOK, slot_at in *.
  constructor; unfold TmrOK, ClockOK, slot_at; rewrite ?E1, ?E2, ?E3, ?E4, ?E5, ?E6, ?E7, ?E8; auto.
  intros x Hx Ax. destruct (i_ok0 x Hx Ax). constructor; unfold rd in *; rewrite ?E4, ?E5, ?E6; auto.
Qed.
Lemma Inv_emit o s : Inv s -> Inv (emit o s).
Proof. apply Inv_ext; reflexivity. Qed.
Lemma Polled_app a l : Polled (a ++ l) -> Polled l.
Proof. intros H p x Hin. apply (H p x). apply in_or_app. auto. Qed.
Lemma NW_ext s s' :
  cnt0 s' = cnt0 s -> tb s' = tb s -> now s <= now s' -> (exists add, outs s' = add ++ outs s) -> NWw s' -> NWw s.
Proof.
  intros E1 E2 Hn (add & Eo) [H1 H2]. split; [rewrite E1, E2 in H1; lia|].
  destruct H2 as [H2|H2]; [left; exact H2|right]. rewrite Eo in H2. eapply Polled_app; eauto.
Qed.
Lemma NW_passive s s' : passive s s' -> NWw s' -> NWw s.
Proof. intros [] H. eapply NW_ext; eauto. destruct pa_outs0 as (add & E & _). exists add. exact E. Qed.

(* ---------- searching the slot table ---------- *)
Lemma find_slot_some l : forall idx ch i, find_slot l idx ch = Some i ->
  idx <= i < idx + len l /\ s_chan (nth (Z.to_nat (i - idx)) l slot_free) = ch /\
  forall k, (k < Z.to_nat (i - idx))%nat -> s_chan (nth k l slot_free) <> ch.
Proof.
  induction l as [|x l IH]; intros idx ch i H; cbn [find_slot] in H; [discriminate|].
  rewrite len_cons. pose proof (len_nonneg l).
  destruct (s_chan x =? ch) eqn:E.
  - injection H as <-. apply Z.eqb_eq in E. replace (idx - idx) with 0 by lia. cbn [nth Z.to_nat]. split; [lia|]. split; [auto|]. intros k Hk. cbn in Hk. lia.
  - apply Z.eqb_neq in E. apply IH in H. destruct H as (A & B & C).
    replace (Z.to_nat (i - idx)) with (S (Z.to_nat (i - (idx + 1)))) by lia. cbn [nth].
    repeat split; try lia; auto. intros [|k] Hk; cbn [nth]; auto. apply C; lia.
Qed.
Lemma find_slot_none l : forall idx ch, find_slot l idx ch = None -> forall x, In x l -> s_chan x <> ch.
Proof.
  induction l as [|y l IH]; intros idx ch H x Hin; cbn in *; [contradiction|].
  destruct (s_chan y =? ch) eqn:E; [discriminate|]. apply Z.eqb_neq in E.
  destruct Hin as [<-|Hin]; auto. eapply IH; eauto.
Qed.
Lemma find_slot_none_iff l idx ch : find_slot l idx ch = None <-> (forall x, In x l -> s_chan x <> ch).
Proof.
  split; [apply find_slot_none|]. revert idx. induction l as [|y l IH]; intros idx H; cbn; auto.
  destruct (s_chan y =? ch) eqn:E.
  - apply Z.eqb_eq in E. exfalso. apply (H y); cbn; auto.
  - apply IH. intros x Hx. apply H. cbn; auto.
Qed.

Lemma passive_uptime s : ClockOK s -> NWw (fst (uptime_msec s)) -> passive s (fst (uptime_msec s)) /\ snd (uptime_msec s) = rd s (now s)
  /\ now (fst (uptime_msec s)) = now s.
Proof.
  intros C N. rewrite uptime_msec_spec by auto. cbn [fst snd]. split; [|auto].
  destruct C as (A & B & L & D & E).
  pose proof (Z.div_mod (cnt0 s + (now s - tb s)) 4294967296 ltac:(lia)) as DM.
  pose proof (Z.mod_pos_bound (cnt0 s + (now s - tb s)) 4294967296 ltac:(lia)) as MB.
  assert (Q0 : 0 <= (cnt0 s + (now s - tb s)) / 4294967296) by (apply Z.div_pos; lia).
  constructor; cbn; try reflexivity; try lia.
  - intros _. unfold ClockOK; cbn. lia.
  - eexists [_]; split; [reflexivity|]. repeat constructor.
Qed.

Lemma passive_uptime_usec s : ClockOK s -> NWw (fst (uptime_usec s)) -> passive s (fst (uptime_usec s)).
Proof.
  intros C N. pose proof (passive_uptime s C) as H. unfold uptime_msec in H.
  destruct (uptime_usec s) as [s1 u]. cbn [fst snd] in *. apply H; auto.
Qed.

(* ---------- replacing one slot ---------- *)
Lemma slot_at_in s i : (i < length (slots s))%nat -> In (slot_at s i) (slots s).
Proof. intros. apply nth_In; auto. Qed.
Lemma in_slot_at s x : In x (slots s) -> exists i, (i < length (slots s))%nat /\ slot_at s i = x.
Proof. intros H. destruct (In_nth _ _ slot_free H) as (i & A & B). exists i; auto. Qed.

Lemma Inv_set_slot s n y :
  Inv s -> (n < 8)%nat ->
  ((s_chan y = 255 /\ s_left y = 0) \/
   (active y = true /\ SlotOK s y /\ forall j, (j < 8)%nat -> j <> n -> s_chan (slot_at s j) <> s_chan y)) ->
  Inv (set_slots (upd (slots s) n y) s).
Proof.
  intros I Hn Hy. destruct I. 
  assert (ST : forall x, SlotOK s x -> SlotOK (set_slots (upd (slots s) n y) s) x).
  { intros x []. constructor; auto. }
  constructor; cbn [slots set_slots delay tcd]; auto.
  - rewrite upd_length; auto.
  - intros x Hin. apply In_upd in Hin. destruct Hin as [->|Hin]; auto.
    destruct Hy as [[A B]|[A _]]; auto.
  - intros x Hin Hact. apply In_upd in Hin. destruct Hin as [->|Hin]; auto.
    destruct Hy as [[A B]|(A & B & _)]; auto.
    unfold active in Hact. rewrite A in Hact. cbn in Hact. discriminate.
  - unfold slot_at; cbn [slots set_slots]. intros i j Hi Hj E Ne.
    destruct (Nat.eq_dec i n) as [->|Ni]; destruct (Nat.eq_dec j n) as [->|Nj]; auto.
    + rewrite nth_upd_eq in E, Ne by lia. rewrite nth_upd_ne in E by auto.
      destruct Hy as [[A B]|(A & B & C)]; [congruence|]. exfalso. apply (C j Hj Nj). unfold slot_at. congruence.
    + rewrite nth_upd_eq in E by lia. rewrite nth_upd_ne in E, Ne by auto.
      destruct Hy as [[A B]|(A & B & C)]; [congruence|]. exfalso. apply (C i Hi Ni). unfold slot_at. congruence.
    + rewrite (nth_upd_ne _ n i) in E, Ne by auto. rewrite (nth_upd_ne _ n j) in E by auto. apply i_uniq0; auto.
Qed.

(* ---------- ghost trace ---------- *)
Definition isghost (o : out) : bool :=
  match o with GArm _ _ _ _ | GFinish _ _ _ _ _ _ _ | GEvalStart _ _ | GEvalEnd _ => true | _ => false end.
Lemma noghost_false o : noghost o -> isghost o = false.
Proof. destruct o; cbn; auto; contradiction. Qed.
Lemma in_ghost_app add l o : Forall noghost add -> isghost o = true -> In o (add ++ l) -> In o l.
Proof.
  intros F G H. apply in_app_or in H. destruct H; auto.
  rewrite Forall_forall in F. apply F in H. apply noghost_false in H. congruence.
Qed.
Fixpoint fins (l : list out) : list (Z * Z) :=
  match l with
  | [] => []
  | GFinish _ ch _ t0 _ _ _ :: t => (ch, t0) :: fins t
  | _ :: t => fins t
  end.
Lemma fins_app a b : fins (a ++ b) = fins a ++ fins b.
Proof. induction a as [|o a IH]; cbn; auto. destruct o; cbn; auto. f_equal; auto. Qed.
Lemma fins_noghost add : Forall noghost add -> fins add = [].
Proof. induction 1 as [|o a H F IH]; cbn; auto. destruct o; cbn in *; auto; contradiction. Qed.
Lemma in_fins l ch t0 : In (ch, t0) (fins l) -> exists tcb tg dur u0 u, In (GFinish tcb ch tg t0 dur u0 u) l.
Proof.
  induction l as [|o l IH]; cbn; [contradiction|]. intros H.
  assert (R : In (ch, t0) (fins l) -> exists tcb tg dur u0 u, In (GFinish tcb ch tg t0 dur u0 u) (o :: l)).
  { intros H'. destruct (IH H') as (a & b & c0 & d & e & F); exists a, b, c0, d, e; right; exact F. }
  destruct o; auto.
  cbn in H. destruct H as [E|H]; auto.
  injection E as <- <-. do 5 eexists. left; reflexivity.
Qed.

Record Tr (s : st) : Prop := {
  tr_fin : forall tcb ch tg t0 dur u0 u, In (GFinish tcb ch tg t0 dur u0 u) (outs s) ->
     (dur - 1) * 1000 < tcb - t0 /\ 0 < dur /\ tcb <= now s /\ In (GArm t0 ch dur tg) (outs s) /\
     forall x, In x (slots s) -> active x = true -> s_chan x = ch -> tcb <= g_t0 x;
  tr_arm : forall x, In x (slots s) -> active x = true ->
     In (GArm (g_t0 x) (s_chan x) (g_dur x) (s_target x)) (outs s);
  tr_uniq : NoDup (fins (outs s))
}.
Lemma Tr_passive s s' : passive s s' -> Tr s -> Tr s'.
Proof.
  intros [] []. destruct pa_outs0 as (add & E & F).
  constructor; rewrite ?E, ?pa_slots0.
  - intros * H. apply in_ghost_app in H; auto. destruct (tr_fin0 _ _ _ _ _ _ _ H) as (A & B & C & D & G).
    repeat split; auto; try lia. apply in_or_app; auto.
  - intros x H A. apply in_or_app; right; auto.
  - rewrite fins_app, fins_noghost by auto. auto.
Qed.

(* ---------- one slot evaluation (body of the loop of supla_esp_countdown_timer_cb) ---------- *)
Definition evald (lo hi : Z) (s0 : st) (x y : slot) : Prop :=
  (active x = false /\ y = x) \/
  (active x = true /\ exists tl, lo <= tl <= hi /\
     ((rd s0 tl - s_last x < s_left x /\ y = slot_run x (s_left x - (rd s0 tl - s_last x)) (rd s0 tl) tl) \/
      (s_left x <= rd s0 tl - s_last x /\ y = slot_release x (rd s0 tl) tl))).

Record frame (s s' : st) : Prop := {
  fr_cnt0 : cnt0 s' = cnt0 s; fr_tb : tb s' = tb s;
  fr_now : now s <= now s';
  fr_outs : exists add, outs s' = add ++ outs s
}.
Lemma frame_refl s : frame s s.
Proof. constructor; try reflexivity; try lia. exists []; auto. Qed.
Lemma frame_trans a b c : frame a b -> frame b c -> frame a c.
Proof.
  intros [] []. constructor; try congruence; try lia.
  destruct fr_outs0 as (x & E1), fr_outs1 as (y & E2). exists (y ++ x). rewrite E2, E1, app_assoc; auto.
Qed.
Lemma frame_passive s s' : passive s s' -> frame s s'.
Proof. intros []. constructor; auto. destruct pa_outs0 as (a & E & _). exists a; auto. Qed.
Lemma NW_frame s s' : frame s s' -> NWw s' -> NWw s.
Proof. intros [] H. eapply NW_ext; eauto. Qed.

Lemma u64_small z : 0 <= z < 18446744073709551616 -> z mod 18446744073709551616 = z.
Proof. intros; apply Z.mod_small; lia. Qed.

Lemma rd_bound s t : 0 <= cnt0 s -> tb s <= t -> cnt0 s + (t - tb s) < 4611686018427387904 -> 0 <= rd s t < 4611686018427387904.
Proof.
  intros. unfold rd. pose proof (up64_nonneg (cnt0 s + (t - tb s)) ltac:(lia)). pose proof (up64_le (cnt0 s + (t - tb s)) ltac:(lia)).
  split. - apply Z.div_pos; lia. - apply Z.div_lt_upper_bound; lia.
Qed.
Lemma NW_big s : NWw s -> cnt0 s + (now s - tb s) < 4611686018427387904.
Proof. intros [H _]. pose proof WB_range. nia. Qed.

Definition finish_of (x : slot) (tcb u : Z) : out :=
  GFinish tcb (s_chan x) (s_target x) (g_t0 x) (g_dur x) (g_u0 x) u.

Lemma frame_uptime s : frame s (fst (uptime_msec s)).
Proof.
  unfold uptime_msec, uptime_usec. cbn [fst]. constructor; cbn; try reflexivity; try lia. eexists [_]; reflexivity.
Qed.
Lemma frame_uptime_usec s : frame s (fst (uptime_usec s)).
Proof. unfold uptime_usec. cbn [fst]. constructor; cbn; try reflexivity; try lia. eexists [_]; reflexivity. Qed.
Lemma cb_slot_frame c a s : frame s (cb_slot c a s).
Proof.
  unfold cb_slot. destruct (active _); [|apply frame_refl].
  pose proof (frame_uptime s) as F1. destruct (uptime_msec s) as [s1 u]. cbn [fst] in F1.
  destruct (_ <=? _).
  - pose proof (passive_chan_set_value c (s_gpio (nth (Z.to_nat a) (slots s) slot_free))
        (if s_target (nth (Z.to_nat a) (slots s) slot_free) =? 0 then LO else HI) (s_chan (nth (Z.to_nat a) (slots s) slot_free)) s1) as P.
    destruct (chan_set_value _ _ _ _ s1) as [s3 ok]. cbn [fst] in P.
    eapply frame_trans; [exact F1|]. eapply frame_trans; [apply frame_passive; exact P|].
    eapply frame_trans; [apply frame_passive; apply passive_t2_set|].
    constructor; cbn; try reflexivity; try lia. eexists [_]; reflexivity.
  - eapply frame_trans; [exact F1|]. eapply frame_trans; [apply frame_passive; apply passive_t2_set|].
    constructor; cbn; try reflexivity; try lia. exists []; reflexivity.
Qed.

Lemma cb_slot_frame1 c a s :
  active (nth (Z.to_nat a) (slots s) slot_free) = true -> frame (fst (uptime_msec s)) (cb_slot c a s).
Proof.
  intros A. unfold cb_slot. rewrite A. destruct (uptime_msec s) as [s1 u]. cbn [fst].
  destruct (_ <=? _).
  - pose proof (passive_chan_set_value c (s_gpio (nth (Z.to_nat a) (slots s) slot_free))
        (if s_target (nth (Z.to_nat a) (slots s) slot_free) =? 0 then LO else HI) (s_chan (nth (Z.to_nat a) (slots s) slot_free)) s1) as P.
    destruct (chan_set_value _ _ _ _ s1) as [s3 ok]. cbn [fst] in P.
    eapply frame_trans; [apply frame_passive; exact P|].
    eapply frame_trans; [apply frame_passive; apply passive_t2_set|].
    constructor; cbn; try reflexivity; try lia. eexists [_]; reflexivity.
  - eapply frame_trans; [apply frame_passive; apply passive_t2_set|].
    constructor; cbn; try reflexivity; try lia. exists []; reflexivity.
Qed.

Lemma cb_slot_step c a s :
  (a < 8)%nat -> Inv s -> Tr s -> NWw (cb_slot c (Z.of_nat a) s) ->
  let s' := cb_slot c (Z.of_nat a) s in
  let x := slot_at s a in
  (NWw s' -> Inv s' /\ Tr s') /\ frame s s' /\ delay s' = delay s /\ tcd s' = tcd s /\ now s' <= now s + OP /\
  (forall i, (i < 8)%nat -> i <> a -> slot_at s' i = slot_at s i) /\
  evald (now s) (now s) s x (slot_at s' a) /\
  (exists add, outs s' = add ++ outs s /\
     ((Forall noghost add /\ (active (slot_at s' a) = true \/ active x = false)) \/
      (active x = true /\ s_chan (slot_at s' a) = 255 /\
       exists a1, add = finish_of x (now s) (rd s (now s)) :: a1 /\ Forall noghost a1))).
Proof.
  intros Ha I T N0. cbv zeta.
  assert (N : active (slot_at s a) = true -> NWw (fst (uptime_msec s))).
  { intros A. eapply NW_frame; [|exact N0]. apply cb_slot_frame1. rewrite Nat2Z.id. exact A. }
  clear N0. unfold cb_slot. rewrite Nat2Z.id. fold (slot_at s a).
  set (x := slot_at s a) in *.
  assert (OPpos : 0 <= OP) by (destruct consts_ok; unfold OP; lia).
  destruct (active x) eqn:Hact.
  2:{ split; [auto|]. split; [apply frame_refl|]. split; [auto|]. split; [auto|]. split; [lia|]. split; [auto|].
      split; [left; auto|]. exists []; split; auto. }
  pose proof (i_clk _ I) as CK.
  specialize (N eq_refl).
  destruct (passive_uptime s CK N) as (P1 & U & N1).
  pose proof (NW_big _ N) as Big. rewrite (pa_cnt0 _ _ P1), (pa_tb _ _ P1), N1 in Big.
  destruct (uptime_msec s) as [s1 u] eqn:EU. cbn [fst snd] in *. subst u.
  assert (Hin : In x (slots s)) by (apply slot_at_in; rewrite (i_len _ I); auto).
  pose proof (i_ok _ I x Hin Hact) as SO. destruct SO as [Sch Sleft Sdur Sacct Slast Su0 St].
  destruct CK as (Cl & Cu & CL & C0 & Ct). destruct St as (T1 & T2 & T3).
  pose proof (rd_mono s _ _ T3) as Mono. rewrite <- Slast in Mono.
  assert (RB : 0 <= rd s (now s) < 4611686018427387904) by (apply rd_bound; lia).
  assert (RL : 0 <= s_last x) by (rewrite Slast; apply rd_bound; lia).
  rewrite u64_small by lia.
  set (u := rd s (now s)) in *.
  assert (I1 : Inv s1) by (eapply Inv_passive; eauto).
  assert (Tr1 : Tr s1) by (eapply Tr_passive; eauto).
  assert (SL1 : slots s1 = slots s) by apply P1.
  destruct (s_left x <=? u - s_last x) eqn:Ex.
  - (* expired *)
    apply Z.leb_le in Ex.
    destruct (chan_set_value c (s_gpio x) _ (s_chan x) s1) as [s3 ok] eqn:ECS.
    pose proof (passive_chan_set_value c (s_gpio x) (if s_target x =? 0 then LO else HI) (s_chan x) s1) as P3.
    pose proof (now_chan_set_value c (s_gpio x) (if s_target x =? 0 then LO else HI) (s_chan x) s1) as Q3.
    rewrite ECS in P3, Q3. cbn [fst] in P3, Q3.
    pose proof (passive_t2_set (s_chan x) 0 s3) as P4. set (s4 := t2_set (s_chan x) 0 s3) in *.
    pose proof (passive_trans _ _ _ P1 (passive_trans _ _ _ P3 P4)) as P14.
    assert (S4 : slots s4 = slots s) by apply P14.
    assert (Now4 : now s4 = now s + OP) by (unfold s4; rewrite now_t2_set; lia).
    set (gf := GFinish (now s1) (s_chan x) (s_target x) (g_t0 x) (g_dur x) (g_u0 x) u).
    assert (I4 : Inv s4) by (eapply Inv_passive; eauto).
    assert (T4 : Tr s4) by (eapply Tr_passive; eauto).
    assert (Early : (g_dur x - 1) * 1000 < now s - g_t0 x).
    { apply rd_diff_lo with (s := s); [lia|]. rewrite <- Su0. fold u. lia. }
    split; [|split; [|split; [|split; [|split; [|split; [|split]]]]]].
    + intros N'. split.
      * apply (Inv_set_slot (emit gf s4)); auto. apply Inv_emit; auto.
      * destruct T4. constructor; cbn [outs set_slots slots now emit set_outs].
        -- intros * [E|H].
           ++ unfold gf in E. injection E as <- <- <- <- <- <- <-.
              split; [rewrite N1; lia|]. split; [lia|]. split; [lia|]. split.
              ** right. apply tr_arm0; auto. rewrite S4; auto.
              ** intros y Hy Ay Ey. apply (In_upd_idx _ _ _ _ slot_free) in Hy. destruct Hy as [->|(j & Nj & Hj & <-)]; [discriminate|].
                 rewrite S4 in *. rewrite (i_len _ I) in Hj. exfalso. apply Nj.
                 apply (i_uniq _ I); auto. unfold active in Ay. apply andb_true_iff in Ay. destruct Ay as [Ay _].
                 apply negb_true_iff, Z.eqb_neq in Ay. auto.
           ++ destruct (tr_fin0 _ _ _ _ _ _ _ H) as (A & B & C & D & G).
              split; [auto|]. split; [auto|]. split; [auto|]. split; [right; auto|].
              intros y Hy Ay Ey. apply In_upd in Hy. destruct Hy as [->|Hy]; [discriminate|]. apply G; auto.
        -- intros y Hy Ay. apply In_upd in Hy. destruct Hy as [->|Hy]; [discriminate|]. right. apply tr_arm0; auto.
        -- cbn [fins]. constructor; auto. intros Hf. apply in_fins in Hf.
           destruct Hf as (tcb & tg & dur & u0 & u' & Hf).
           destruct (tr_fin0 _ _ _ _ _ _ _ Hf) as (A & B & C & D & G).
           assert (tcb <= g_t0 x) by (apply G; auto; rewrite S4; auto). lia.
    + eapply frame_trans; [apply frame_passive; exact P14|].
      constructor; cbn; try reflexivity; try lia. eexists [_]; reflexivity.
    + cbn [delay set_slots emit set_outs]. apply P14.
    + cbn [tcd set_slots emit set_outs]. apply P14.
    + cbn [now set_slots emit set_outs]. lia.
    + intros i Hi Ne. unfold slot_at. cbn [slots set_slots emit set_outs]. rewrite nth_upd_ne by auto. rewrite S4. auto.
    + right. split; auto. exists (now s). split; [lia|]. right. split; auto.
      unfold slot_at. cbn [slots set_slots emit set_outs]. rewrite nth_upd_eq by (rewrite S4, (i_len _ I); auto). rewrite N1. reflexivity.
    + destruct (pa_outs _ _ P14) as (a14 & E14 & F14).
      exists (gf :: a14). split.
      * cbn [outs set_slots emit set_outs]. rewrite E14. reflexivity.
      * right. split; auto. split.
        { unfold slot_at. cbn [slots set_slots emit set_outs]. rewrite nth_upd_eq by (rewrite S4, (i_len _ I); auto). reflexivity. }
        exists a14. unfold gf, finish_of. rewrite N1. auto.
  - (* still running *)
    apply Z.leb_gt in Ex.
    rewrite u32_small by lia.
    pose proof (passive_t2_set (s_chan x) (s_left x - (u - s_last x)) s1) as P3.
    set (s3 := t2_set _ _ s1) in *.
    assert (S3 : slots s3 = slots s) by (rewrite (pa_slots _ _ P3); auto).
    assert (Now3 : now s3 = now s) by (unfold s3, t2_set; destruct (_ <? _); cbn; auto).
    pose proof (passive_trans _ _ _ P1 P3) as P13.
    set (y := slot_run x (s_left x - (u - s_last x)) u (now s1)).
    assert (Ay : active y = true).
    { unfold active, y; cbn. unfold active in Hact. apply andb_true_iff in Hact. destruct Hact as [A B].
      rewrite A. cbn. apply Z.ltb_lt. lia. }
    split; [|split; [|split; [|split; [|split; [|split; [|split]]]]]].
    + intros N'. assert (I3 : Inv s3) by (eapply Inv_passive; eauto).
      assert (T3' : Tr s3) by (eapply Tr_passive; eauto).
      split.
      * apply Inv_set_slot; auto. right. split; auto. split.
        -- unfold y. constructor; cbn; try lia.
           ++ rewrite N1. unfold rd. rewrite (pa_cnt0 _ _ P13), (pa_tb _ _ P13). reflexivity.
           ++ unfold rd. rewrite (pa_cnt0 _ _ P13), (pa_tb _ _ P13). apply Su0.
           ++ rewrite (pa_tb _ _ P13), N1, Now3. lia.
        -- intros j Hj Ne E. unfold slot_at in E. rewrite S3 in E. unfold y in E; cbn in E.
           apply Ne. apply (i_uniq _ I); auto. unfold slot_at. rewrite E. lia.
      * destruct T3'. constructor; cbn [outs set_slots slots now].
        -- intros * H. destruct (tr_fin0 _ _ _ _ _ _ _ H) as (A & B & C & D & G). repeat split; auto.
           intros z Hz Az Ez. apply In_upd in Hz. destruct Hz as [->|Hz]; [|apply G; auto].
           unfold y; cbn. apply (G x); auto. rewrite S3; auto.
        -- intros z Hz Az. apply In_upd in Hz. destruct Hz as [->|Hz]; [|apply tr_arm0; auto].
           unfold y; cbn. apply (tr_arm0 x); auto. rewrite S3; auto.
        -- auto.
    + eapply frame_trans; [apply frame_passive; exact P13|]. constructor; cbn; try reflexivity; try lia. exists []; auto.
    + cbn [delay set_slots]. apply P13.
    + cbn [tcd set_slots]. apply P13.
    + cbn [now set_slots]. lia.
    + intros i Hi Ne. unfold slot_at. cbn [slots set_slots]. rewrite nth_upd_ne by auto. rewrite S3. auto.
    + right. split; auto. exists (now s). split; [lia|]. left. split; [fold u; lia|].
      unfold slot_at. cbn [slots set_slots]. rewrite nth_upd_eq by (rewrite S3, (i_len _ I); auto). unfold y. rewrite N1. reflexivity.
    + destruct (pa_outs _ _ P13) as (a13 & E13 & F13). exists a13. split; [cbn; auto|].
      left. split; auto. left. unfold slot_at. cbn [slots set_slots]. rewrite nth_upd_eq by (rewrite S3, (i_len _ I); auto). auto.
Qed.

(* ---------- the whole loop ---------- *)
Definition fin_from (s0 s : st) (k : nat) (o : out) : Prop :=
  exists i tl, (i < k)%nat /\ now s0 <= tl <= now s /\ o = finish_of (slot_at s0 i) tl (rd s0 tl) /\
               active (slot_at s0 i) = true /\ s_chan (slot_at s i) = 255.
Record LoopInv (s0 s : st) (k : nat) : Prop := {
  lp_inv : Inv s; lp_tr : Tr s; lp_frame : frame s0 s; lp_delay : delay s = delay s0; lp_tcd : tcd s = tcd s0;
  lp_now : now s <= now s0 + Z.of_nat k * OP;
  lp_done : forall i, (i < k)%nat -> evald (now s0) (now s) s0 (slot_at s0 i) (slot_at s i);
  lp_todo : forall i, (k <= i < 8)%nat -> slot_at s i = slot_at s0 i;
  lp_outs : exists add, outs s = add ++ outs s0 /\ Forall (fun o => isghost o = true -> fin_from s0 s k o) add;
  (* forward: a slot that was running and is not any more has its switch-back in the trace *)
  lp_fin : forall i, (i < k)%nat -> active (slot_at s0 i) = true -> active (slot_at s i) = false ->
           exists tcb u, In (finish_of (slot_at s0 i) tcb u) (outs s)
}.
Lemma evald_widen lo hi lo' hi' s0 x y : lo' <= lo -> hi <= hi' -> evald lo hi s0 x y -> evald lo' hi' s0 x y.
Proof.
  intros A B [E|(E & tl & R & D)]; [left; auto|]. right. split; auto. exists tl. split; [lia|auto].
Qed.
Lemma rd_frame s0 s t : frame s0 s -> rd s t = rd s0 t.
Proof. intros []. unfold rd. rewrite fr_cnt1, fr_tb0. reflexivity. Qed.

Lemma loop_step c s0 s k :
  (k < 8)%nat -> LoopInv s0 s k -> NWw (cb_slot c (Z.of_nat k) s) -> LoopInv s0 (cb_slot c (Z.of_nat k) s) (S k).
Proof.
  intros Hk L N'. destruct L.
  pose proof (cb_slot_frame c (Z.of_nat k) s) as F.
  assert (N : NWw s) by (eapply NW_frame; eauto).
  destruct (cb_slot_step c k s Hk lp_inv0 lp_tr0 N') as (A & B & C & D & E & G & H & (add & O1 & O2)).
  destruct (A N') as [I' T'].
  set (s' := cb_slot c (Z.of_nat k) s) in *.
  assert (OPpos : 0 <= OP) by (destruct consts_ok; unfold OP; lia).
  constructor; auto.
  - eapply frame_trans; eauto.
  - congruence.
  - congruence.
  - rewrite Nat2Z.inj_succ. lia.
  - intros i Hi. destruct (Nat.eq_dec i k) as [->|Ne].
    + rewrite lp_todo0 in H by lia. 
      assert (EV : evald (now s) (now s) s0 (slot_at s0 k) (slot_at s' k)).
      { destruct H as [H|(H1 & tl & H2 & H3)]; [left; auto|]. right. split; auto. exists tl. split; auto.
        rewrite (rd_frame s0 s) in H3 by auto. exact H3. }
      eapply evald_widen; [| |exact EV]. apply lp_frame0. apply B.
    + rewrite G by (auto; lia). eapply evald_widen; [| |apply lp_done0; lia]. lia. apply B.
  - intros i Hi. rewrite G by lia. apply lp_todo0; lia.
  - destruct lp_outs0 as (add0 & E0 & F0). exists (add ++ add0). split.
    + rewrite O1, E0, app_assoc. reflexivity.
    + apply Forall_app. split.
      * destruct O2 as [[NG _]|(Ax & Cx & a1 & -> & NG)].
        -- rewrite Forall_forall in *. intros o Ho Gh. apply NG, noghost_false in Ho. congruence.
        -- constructor.
           ++ intros _. exists k, (now s). split; [lia|]. split; [split; [apply lp_frame0|apply B]|].
              rewrite lp_todo0 in * by lia. rewrite (rd_frame s0 s) by auto. auto.
           ++ rewrite Forall_forall in *. intros o Ho Gh. apply NG, noghost_false in Ho. congruence.
      * rewrite Forall_forall in *. intros o Ho Gh. destruct (F0 o Ho Gh) as (i & tl & P1 & P2 & P3 & P4 & P5).
        exists i, tl. split; [lia|]. split; [destruct B; lia|]. split; auto. split; auto.
        rewrite G by lia. auto.
  - intros i Hi A0 A1. destruct (Nat.eq_dec i k) as [->|Ne].
    + rewrite O1. destruct O2 as [[_ [Aa|Ax]]|(Ax & Cx & a1 & -> & NG)].
      * fold s' in Aa. congruence.
      * rewrite lp_todo0 in Ax by lia. congruence.
      * rewrite lp_todo0 by lia. do 2 eexists. left. reflexivity.
    + rewrite G in A1 by (auto; lia). destruct (lp_fin0 i ltac:(lia) A0 A1) as (tcb & u & Hin).
      exists tcb, u. rewrite O1. apply in_or_app. right. exact Hin.
Qed.

Lemma cd_loop_unfold c s :
  cd_loop c s = cb_slot c (Z.of_nat 7) (cb_slot c (Z.of_nat 6) (cb_slot c (Z.of_nat 5) (cb_slot c (Z.of_nat 4)
               (cb_slot c (Z.of_nat 3) (cb_slot c (Z.of_nat 2) (cb_slot c (Z.of_nat 1) (cb_slot c (Z.of_nat 0) s))))))).
Proof. reflexivity. Qed.

Lemma cd_loop_frame c s : frame s (cd_loop c s).
Proof. rewrite cd_loop_unfold. repeat (eapply frame_trans; [|apply cb_slot_frame]). apply frame_refl. Qed.

Lemma cd_loop_spec c s0 : Inv s0 -> Tr s0 -> NWw (cd_loop c s0) -> LoopInv s0 (cd_loop c s0) 8.
Proof.
  intros I T N.
  assert (L0 : LoopInv s0 s0 0).
  { constructor; auto; try lia; try apply frame_refl; try (intros; lia); try (exists []; split; auto). }
  rewrite cd_loop_unfold in *.
  set (s1 := cb_slot c (Z.of_nat 0) s0) in *. set (s2 := cb_slot c (Z.of_nat 1) s1) in *.
  set (s3 := cb_slot c (Z.of_nat 2) s2) in *. set (s4 := cb_slot c (Z.of_nat 3) s3) in *.
  set (s5 := cb_slot c (Z.of_nat 4) s4) in *. set (s6 := cb_slot c (Z.of_nat 5) s5) in *.
  set (s7 := cb_slot c (Z.of_nat 6) s6) in *. set (s8 := cb_slot c (Z.of_nat 7) s7) in *.
  assert (N7 : NWw s7) by (eapply NW_frame; [apply cb_slot_frame|exact N]).
  assert (N6 : NWw s6) by (eapply NW_frame; [apply cb_slot_frame|exact N7]).
  assert (N5 : NWw s5) by (eapply NW_frame; [apply cb_slot_frame|exact N6]).
  assert (N4 : NWw s4) by (eapply NW_frame; [apply cb_slot_frame|exact N5]).
  assert (N3 : NWw s3) by (eapply NW_frame; [apply cb_slot_frame|exact N4]).
  assert (N2 : NWw s2) by (eapply NW_frame; [apply cb_slot_frame|exact N3]).
  assert (N1 : NWw s1) by (eapply NW_frame; [apply cb_slot_frame|exact N2]).
  pose proof (loop_step c s0 s0 0 ltac:(lia) L0 N1) as L1. fold s1 in L1.
  pose proof (loop_step c s0 s1 1 ltac:(lia) L1 N2) as L2. fold s2 in L2.
  pose proof (loop_step c s0 s2 2 ltac:(lia) L2 N3) as L3. fold s3 in L3.
  pose proof (loop_step c s0 s3 3 ltac:(lia) L3 N4) as L4. fold s4 in L4.
  pose proof (loop_step c s0 s4 4 ltac:(lia) L4 N5) as L5. fold s5 in L5.
  pose proof (loop_step c s0 s5 5 ltac:(lia) L5 N6) as L6. fold s6 in L6.
  pose proof (loop_step c s0 s6 6 ltac:(lia) L6 N7) as L7. fold s7 in L7.
  exact (loop_step c s0 s7 7 ltac:(lia) L7 N).
Qed.

(* ---------- supla_esp_countdown_timer_startstop: the key invariant ---------- *)
(* the armed period never exceeds clamp(time_left/10) of any running slot *)
Definition T1 (s : st) : Prop :=
  forall x, In x (slots s) -> active x = true ->
    t_on (tcd s) = true /\ CD_MIN <= delay s <= clampd (s_left x) /\ t_per (tcd s) = delay s * 1000.

Lemma Inv_timer s s' :
  slots s' = slots s -> cnt0 s' = cnt0 s -> tb s' = tb s -> now s' = now s -> upc s' = upc s -> upl s' = upl s ->
  TmrOK s' -> Inv s -> Inv s'.
Proof.
  intros E1 E4 E5 E6 E7 E8 TM []. unfold ClockOK, slot_at in *.
  constructor; unfold ClockOK, slot_at; rewrite ?E1, ?E4, ?E5, ?E6, ?E7, ?E8; auto.
  intros x Hx Ax. destruct (i_ok0 x Hx Ax). constructor; unfold rd in *; rewrite ?E4, ?E5, ?E6; auto.
Qed.

Lemma startstop_spec s :
  TmrOK s ->
  let s' := startstop s in
  slots s' = slots s /\ cnt0 s' = cnt0 s /\ tb s' = tb s /\ now s' = now s /\ upc s' = upc s /\ upl s' = upl s /\
  outs s' = outs s /\ chfl s' = chfl s /\ time2 s' = time2 s /\ li s' = li s /\
  TmrOK s' /\ T1 s' /\
  ((tcd s' = tcd s /\ delay s' = delay s) \/ t_due (tcd s') = now s + t_per (tcd s') \/ t_on (tcd s') = false).
Proof.
  intros (D0 & Dz & Dp). cbv zeta. unfold startstop.
  pose proof (min_delay_spec (slots s) 0 (or_introl eq_refl)) as M. cbv zeta in M.
  set (d := min_delay (slots s) 0) in *. destruct M as (M1 & _ & M3 & M4).
  pose proof consts_ok as [].
  assert (K : forall x, In x (slots s) -> active x = true -> d <> 0 /\ d <= clampd (s_left x) /\ CD_MIN <= d).
  { intros x Hx Ax. destruct (M3 x Hx Ax). repeat split; auto; lia. }
  destruct ((d =? 0) || negb (d =? delay s)) eqn:E.
  - destruct (0 <? d) eqn:Ed.
    + apply Z.ltb_lt in Ed. cbn. repeat split; cbn; auto; try lia; try (intros; lia);
        try (match goal with H0 : 0 < delay _ |- _ => cbn in H0; lia end);
        try (match goal with H : In ?x _, A : active ?x = true |- _ => cbn in H; destruct (K x H A) as (? & ? & ?); lia end).
    + apply Z.ltb_ge in Ed. assert (d = 0) by lia. cbn. repeat split; cbn; auto; try lia; try (intros; lia);
        try (match goal with H0 : 0 < delay _ |- _ => cbn in H0; lia end);
        try (match goal with H : In ?x _, A : active ?x = true |- _ => cbn in H; destruct (K x H A) as (? & ? & ?); lia end).
  - apply orb_false_iff in E. destruct E as [E1 E2]. apply Z.eqb_neq in E1. apply negb_false_iff, Z.eqb_eq in E2.
    repeat split; auto; try lia; try (apply Dp; lia);
      try (match goal with H : In ?x _, A : active ?x = true |- _ => destruct (K x H A) as (? & ? & ?); try apply Dp; lia end).
Qed.

Definition notfin (o : out) : Prop := match o with GFinish _ _ _ _ _ _ _ => False | _ => True end.
Lemma Tr_emit o s : notfin o -> Tr s -> Tr (emit o s).
Proof.
  intros NF []. constructor; cbn [outs emit set_outs slots now].
  - intros * [E|H]; [subst o; contradiction|].
    destruct (tr_fin0 _ _ _ _ _ _ _ H) as (A & B & C & D & G). repeat split; auto. right; auto.
  - intros x Hx Ax. right; auto.
  - destruct o; cbn [fins]; auto. contradiction.
Qed.

(* ---------- the timer callback body: loop + startstop ---------- *)
Record Good (s : st) : Prop := { g_inv : Inv s; g_tr : Tr s; g_t1 : T1 s }.

Definition eval_ghost (s0 s' : st) (due : Z) (o : out) : Prop :=
  o = GEvalStart due (now s0) \/ (exists t, o = GEvalEnd t /\ now s0 <= t <= now s') \/ fin_from s0 s' 8 o.

Lemma startstop_same s :
  let s' := startstop s in
  slots s' = slots s /\ cnt0 s' = cnt0 s /\ tb s' = tb s /\ now s' = now s /\ upc s' = upc s /\ upl s' = upl s /\
  outs s' = outs s /\ chfl s' = chfl s /\ time2 s' = time2 s /\ li s' = li s /\ conn s' = conn s /\ reg s' = reg s /\
  queue s' = queue s /\ gout s' = gout s /\ ram_relay s' = ram_relay s /\ ram_t2 s' = ram_t2 s.
Proof.
  cbv zeta. unfold startstop. destruct (_ || _); [destruct (0 <? _)|]; cbn; repeat split; reflexivity.
Qed.
Lemma frame_startstop s : frame s (startstop s).
Proof.
  destruct (startstop_same s) as (A & B & C & D & E & F & G & H & J & K & _).
  constructor; auto; try lia. exists []. auto.
Qed.

Lemma emit_facts o s : forall s1, s1 = emit o s ->
  slots s1 = slots s /\ now s1 = now s /\ outs s1 = o :: outs s /\ delay s1 = delay s /\ tcd s1 = tcd s /\ frame s s1 /\
  (forall t, rd s1 t = rd s t) /\ (forall i, slot_at s1 i = slot_at s i).
Proof.
  intros s1 ->. repeat split; try reflexivity; cbn; try lia. eexists [_]; reflexivity.
Qed.

Lemma cd_cb_eq c due s :
  cd_cb c due s = startstop (emit (GEvalEnd (now (cd_loop c (emit (GEvalStart due (now s)) s))))
                                  (cd_loop c (emit (GEvalStart due (now s)) s))).
Proof. reflexivity. Qed.

Lemma frame_emit o s : frame s (emit o s).
Proof. constructor; cbn; try reflexivity; try lia. eexists [_]; reflexivity. Qed.
Lemma cd_cb_frame c due s : frame s (cd_cb c due s).
Proof.
  rewrite cd_cb_eq. eapply frame_trans; [|apply frame_startstop].
  eapply frame_trans; [|apply frame_emit]. eapply frame_trans; [|apply cd_loop_frame]. apply frame_emit.
Qed.

Lemma cd_cb_spec c due s s' :
  s' = cd_cb c due s -> Inv s -> Tr s -> NWw s' ->
  Good s' /\ frame s s' /\ now s' <= now s + 8 * OP /\
  (forall i, (i < 8)%nat -> evald (now s) (now s') s (slot_at s i) (slot_at s' i)) /\
  (exists add, outs s' = add ++ outs s /\ Forall (fun o => isghost o = true -> eval_ghost s s' due o) add /\
               In (GEvalStart due (now s)) add) /\
  ((tcd s' = tcd s /\ delay s' = delay s) \/ t_due (tcd s') = now s' + t_per (tcd s') \/ t_on (tcd s') = false).
Proof.
  intros Es' I T N. rewrite cd_cb_eq in Es'.
  remember (emit (GEvalStart due (now s)) s) as s1 eqn:Es1.
  assert (I1 : Inv s1) by (subst s1; apply Inv_emit; auto).
  assert (T1' : Tr s1) by (subst s1; apply Tr_emit; auto; exact Logic.I).
  destruct (emit_facts _ _ _ Es1) as (Sl1 & Na & O1 & D1 & C1 & F01 & R1 & A1). clear Es1.
  remember (cd_loop c s1) as s2 eqn:Es2.
  assert (F12 : frame s1 s2) by (subst s2; apply cd_loop_frame).
  remember (emit (GEvalEnd (now s2)) s2) as s3 eqn:Es3.
  destruct (emit_facts _ _ _ Es3) as (Sl3 & Nb & O3 & D3 & C3 & F23 & R3 & A3).
  pose proof (frame_startstop s3) as F34. rewrite <- Es' in F34.
  assert (N3 : NWw s3) by (eapply NW_frame; eauto).
  assert (N2 : NWw s2) by (eapply NW_frame; eauto).
  assert (L : LoopInv s1 s2 8) by (subst s2; apply cd_loop_spec; auto).
  destruct L.
  assert (I3 : Inv s3) by (subst s3; apply Inv_emit; auto).
  assert (T3 : Tr s3) by (subst s3; apply Tr_emit; auto; exact Logic.I).
  clear Es3.
  pose proof (startstop_spec s3 (i_tmr _ I3)) as SS. cbv zeta in SS.
  rewrite <- Es' in SS. clear Es' Es2. rename s' into s4.
  destruct SS as (E1 & E2 & E3 & E4 & E5 & E6 & E7 & E8 & E9 & E10 & TM & TT & TD).
  assert (I4 : Inv s4) by (eapply Inv_timer; eauto).
  assert (Tr4 : Tr s4).
  { destruct T3. constructor; rewrite ?E1, ?E7, ?E4; auto. }
  split; [constructor; auto|]. split; [|split; [|split; [|split]]].
  - eapply frame_trans; [exact F01|]. eapply frame_trans; [exact F12|]. eapply frame_trans; eauto.
  - rewrite E4, Nb. rewrite Na in lp_now0. change (Z.of_nat 8) with 8 in lp_now0. lia.
  - intros i Hi. pose proof (lp_done0 i Hi) as EV.
    assert (A4 : slot_at s4 i = slot_at s2 i) by (unfold slot_at; rewrite E1, Sl3; reflexivity).
    rewrite A4, <- A1. rewrite E4, Nb, <- Na.
    destruct EV as [EV|(EA & tl & ER & ED)]; [left; exact EV|]. right. split; [exact EA|]. exists tl. split; [exact ER|].
    rewrite <- R1. exact ED.
  - destruct lp_outs0 as (add & O1' & O2).
    exists (GEvalEnd (now s2) :: add ++ [GEvalStart due (now s)]). split.
    + rewrite E7, O3, O1', O1. cbn [app]. rewrite <- app_assoc. reflexivity.
    + split; [|right; apply in_or_app; right; left; reflexivity].
      constructor; [|apply Forall_app; split].
      * intros _. right; left. exists (now s2). split; auto. rewrite E4, Nb. destruct F12. rewrite Na in fr_now0. lia.
      * apply Forall_forall. intros o Ho Gh. right; right.
        pose proof (proj1 (Forall_forall _ _) O2) as O2'.
        destruct (O2' o Ho Gh) as (i & tl & P1 & P2 & P3 & P4 & P5).
        exists i, tl. rewrite E4, Nb. rewrite Na in P2. rewrite A1, R1 in P3. rewrite A1 in P4.
        split; [exact P1|]. split; [exact P2|]. split; [exact P3|]. split; [exact P4|].
        assert (A4 : slot_at s4 i = slot_at s2 i) by (unfold slot_at; rewrite E1, Sl3; reflexivity).
        rewrite A4. exact P5.
      * constructor; auto. intros _. left. reflexivity.
  - rewrite E4. rewrite C3, D3, lp_tcd0, lp_delay0, C1, D1 in TD. exact TD.
Qed.

(* ---------- how the set of running slots evolves ---------- *)
Definition same_id (x y : slot) : Prop :=
  s_chan x = s_chan y /\ g_t0 x = g_t0 y /\ g_dur x = g_dur y /\ s_target x = s_target y /\ s_gpio x = s_gpio y.
(* every running slot of s' either was running in s (same arming, no more time left than before) or was armed
   after s on a channel in P *)
Definition evo (P : Z -> Prop) (s s' : st) : Prop :=
  forall y, In y (slots s') -> active y = true ->
    (exists x, In x (slots s) /\ active x = true /\ same_id x y /\ s_left y <= s_left x /\ g_tl x <= g_tl y) \/
    (now s <= g_t0 y /\ P (s_chan y)).
Lemma same_id_refl x : same_id x x. Proof. repeat split. Qed.
Lemma same_id_trans x y z : same_id x y -> same_id y z -> same_id x z.
Proof. intros (A1 & A2 & A3 & A4 & A5) (B1 & B2 & B3 & B4 & B5). repeat split; congruence. Qed.
Lemma evo_refl P s : evo P s s.
Proof. intros y Hy Ay. left. exists y. repeat split; auto; lia. Qed.
Lemma evo_trans P s s' s'' : now s <= now s' -> evo P s s' -> evo P s' s'' -> evo P s s''.
Proof.
  intros Hn E1 E2 z Hz Az. destruct (E2 z Hz Az) as [(y & Hy & Ay & I2 & L2 & G2)|[N2 P2]].
  - destruct (E1 y Hy Ay) as [(x & Hx & Ax & I1 & L1 & G1)|[N1 P1]].
    + left. exists x. repeat split; auto; try lia; try (eapply same_id_trans; eauto).
    + right. destruct I2 as (A & B & _). split; [lia|congruence].
  - right. split; auto; lia.
Qed.
Lemma evo_weaken (P Q : Z -> Prop) s s' : (forall c, P c -> Q c) -> evo P s s' -> evo Q s s'.
Proof. intros W E y Hy Ay. destruct (E y Hy Ay) as [A|[A B]]; auto. Qed.
Lemma evo_same_slots P s s' : slots s' = slots s -> evo P s s'.
Proof. intros E y Hy Ay. rewrite E in Hy. left. exists y. repeat split; auto; lia. Qed.
Lemma evo_passive P s s' : passive s s' -> evo P s s'.
Proof. intros []. apply evo_same_slots; auto. Qed.

Lemma evald_evo P s s' :
  Inv s -> (forall i, (i < 8)%nat -> evald (now s) (now s') s (slot_at s i) (slot_at s' i)) ->
  length (slots s') = 8%nat -> evo P s s'.
Proof.
  intros I EV L y Hy Ay. destruct (in_slot_at s' y Hy) as (i & Hi & <-). rewrite L in Hi.
  left. destruct (EV i Hi) as [[A B]|(A & tl & R & [[D1 D2]|[D1 D2]])].
  - rewrite B in Ay. congruence.
  - exists (slot_at s i). assert (Hin : In (slot_at s i) (slots s)) by (apply slot_at_in; rewrite (i_len _ I); auto).
    pose proof (i_ok _ I _ Hin A) as SO. destruct SO as [Sch Sleft Sdur Sacct Slast Su0 (T1' & T2' & T3')].
    assert (s_last (slot_at s i) <= rd s tl) by (rewrite Slast; apply rd_mono; lia).
    rewrite D2. cbn. repeat split; auto; lia.
  - rewrite D2 in Ay. cbn in Ay. discriminate.
Qed.

(* ---------- supla_esp_countdown_timer_disarm ---------- *)
Lemma T1_fewer s s' :
  delay s' = delay s -> tcd s' = tcd s ->
  (forall y, In y (slots s') -> active y = true -> exists x, In x (slots s) /\ active x = true /\ s_left x = s_left y) ->
  T1 s -> T1 s'.
Proof.
  intros E1 E2 H T y Hy Ay. destruct (H y Hy Ay) as (x & Hx & Ax & El). rewrite E1, E2, <- El. apply T; auto.
Qed.

Lemma disarm_spec c ch s :
  0 <= ch < 255 -> Good s ->
  let s' := disarm c ch s in
  Good s' /\ frame s s' /\ delay s' = delay s /\ tcd s' = tcd s /\ now s' = now s /\
  (forall x, In x (slots s') -> s_chan x <> ch) /\ evo (fun _ => False) s s' /\
  (exists add, outs s' = add ++ outs s /\ Forall noghost add).
Proof.
  intros Hch [I T TT]. cbv zeta. unfold disarm.
  destruct (find_slot (slots s) 0 ch) as [i|] eqn:EF.
  2:{ split; [constructor; auto|]. split; [apply frame_refl|]. split; [auto|]. split; [auto|]. split; [auto|].
      split; [apply (find_slot_none _ _ _ EF)|]. split; [apply evo_refl|]. exists []; auto. }
  apply find_slot_some in EF. destruct EF as (R & Ech & _). replace (i - 0) with i in * by lia.
  unfold len in R. rewrite (i_len _ I) in R. set (n := Z.to_nat i) in *.
  assert (Hn : (n < 8)%nat) by (unfold n; lia).
  set (x := nth n (slots s) slot_free) in *. fold (slot_at s n) in x.
  set (y := slot_release x (s_last x) (g_tl x)).
  set (s1 := set_slots (upd (slots s) n y) s).
  assert (I1 : Inv s1) by (apply Inv_set_slot; auto; left; cbn; auto).
  assert (NoCh : forall z, In z (slots s1) -> s_chan z <> ch).
  { intros z Hz. unfold s1 in Hz. cbn in Hz. apply (In_upd_idx _ _ _ _ slot_free) in Hz.
    destruct Hz as [->|(j & Nj & Hj & <-)]; [cbn; lia|].
    rewrite (i_len _ I) in Hj. intros E. apply Nj. apply (i_uniq _ I); auto.
    - unfold slot_at. fold x. rewrite E. auto.
    - unfold slot_at. rewrite E. lia. }
  assert (Sub : forall z, In z (slots s1) -> active z = true -> In z (slots s)).
  { intros z Hz Az. unfold s1 in Hz. cbn in Hz. apply In_upd in Hz. destruct Hz as [->|Hz]; auto. discriminate. }
  assert (T1' : Tr s1).
  { destruct T. constructor; cbn [outs s1 set_slots slots now]; auto.
    intros * H. destruct (tr_fin0 _ _ _ _ _ _ _ H) as (A & B & C & D & G). repeat split; auto. }
  assert (TT1 : T1 s1).
  { apply (T1_fewer s s1); [reflexivity|reflexivity| |exact TT]. intros z Hz Az. exists z. auto. }
  assert (E1 : evo (fun _ => False) s s1).
  { intros z Hz Az. left. exists z. repeat split; auto; lia. }
  assert (F1 : frame s s1) by (constructor; cbn; try reflexivity; try lia; exists []; auto).
  destruct (0 <? s_left x).
  2:{ split; [constructor; auto|]. split; [auto|]. split; [auto|]. split; [auto|]. split; [auto|]. split; [auto|]. split; [auto|]. exists []; auto. }
  set (s2 := t2_set ch 0 s1).
  assert (P2 : passive s1 s2) by apply passive_t2_set.
  assert (P3 : passive s2 (match chflags_of c ch s2 with
                           | Some f => if hasf f CHFLAG_COUNTDOWN then ext_changed c ch s2 else s2
                           | None => s2 end)).
  { destruct (chflags_of c ch s2); [destruct (hasf _ _)|]; try apply passive_refl. apply passive_ext_changed. }
  pose proof (passive_trans _ _ _ P2 P3) as P. set (s3 := match chflags_of c ch s2 with Some _ => _ | None => _ end) in *.
  assert (N3 : now s3 = now s).
  { unfold s3. destruct (chflags_of c ch s2); [destruct (hasf _ _)|]; rewrite ?now_ext_changed; unfold s2; rewrite now_t2_set; reflexivity. }
  split; [constructor|].
  - eapply Inv_passive; eauto.
  - eapply Tr_passive; eauto.
  - intros z Hz Az. rewrite (pa_slots _ _ P) in Hz. rewrite (pa_delay _ _ P), (pa_tcd _ _ P). apply TT1; auto.
  - split; [eapply frame_trans; [exact F1|apply frame_passive; exact P]|].
    split; [rewrite (pa_delay _ _ P); reflexivity|]. split; [rewrite (pa_tcd _ _ P); reflexivity|].
    split; [auto|]. split; [rewrite (pa_slots _ _ P); auto|].
    split.
    + intros z Hz Az. rewrite (pa_slots _ _ P) in Hz. apply E1; auto.
    + destruct (pa_outs _ _ P) as (add & EO & FO). exists add. auto.
Qed.

(* ---------- supla_esp_countdown_timer_countdown ---------- *)
(* first half: a free slot is taken and filled (state s3); second half: startstop or, repaired, the callback body *)
Lemma countdown_arm c ms gpio ch target sender s s' :
  s' = countdown_arm_slot c ms gpio ch target sender s ->
  Inv s -> Tr s -> 0 < ms < 4294967296 -> 0 <= ch < 255 -> (forall x, In x (slots s) -> s_chan x <> ch) -> NWw s' ->
  (s' = s /\ forall x, In x (slots s) -> s_chan x <> 255) \/
  exists s3, s' = startstop s3 /\
    Inv s3 /\ Tr s3 /\ frame s s3 /\ now s3 = now s /\ tcd s3 = tcd s /\ delay s3 = delay s /\
    evo (fun k => k = ch) s s3 /\
    (forall y, In y (slots s3) -> active y = true -> In y (slots s) \/ (g_tl y = now s /\ s_left y = ms /\ s_chan y = ch)) /\
    (exists add, outs s3 = add ++ outs s /\ (forall o, In o add -> notfin o) /\ In (GArm (now s) ch ms target) add).
Proof.
  intros Es' I T Hms Hch NoCh N. unfold countdown_arm_slot in Es'.
  rewrite (proj2 (find_slot_none_iff (slots s) 0 ch) NoCh) in Es'.
  destruct (find_slot (slots s) 0 255) as [i|] eqn:EF; [|left; split; [auto|apply (find_slot_none _ _ _ EF)]]. right.
  apply find_slot_some in EF. destruct EF as (R & Ech & _). replace (i - 0) with i in * by lia.
  unfold len in R. rewrite (i_len _ I) in R. set (n := Z.to_nat i) in *.
  assert (Hn : (n < 8)%nat) by (unfold n; lia).
  pose proof (frame_uptime s) as FU.
  destruct (uptime_msec s) as [s1 u] eqn:EU. cbn [fst] in FU.
  set (ynew := {| s_chan := ch; s_left := ms; s_last := u; s_gpio := gpio; s_target := target; s_sender := sender;
                  g_t0 := now s; g_dur := ms; g_u0 := u; g_tl := now s |}) in *.
  remember (set_slots (upd (slots s1) n ynew) (emit (GArm (now s) ch ms target) s1)) as s2 eqn:Es2.
  remember (t2_set ch ms s2) as s3 eqn:Es3.
  assert (F12 : frame s1 s2) by (subst s2; constructor; cbn; try reflexivity; try lia; eexists [_]; reflexivity).
  assert (P23 : passive s2 s3) by (subst s3; apply passive_t2_set).
  assert (F3' : frame s3 s') by (rewrite Es'; apply frame_startstop).
  assert (F03 : frame s s3) by (eapply frame_trans; [exact FU|]; eapply frame_trans; [exact F12|]; apply frame_passive; auto).
  assert (N3 : NWw s3) by (eapply NW_frame; eauto).
  assert (N0 : NWw s) by (eapply NW_frame; eauto).
  pose proof (i_clk _ I) as CK.
  assert (N1' : NWw (fst (uptime_msec s))).
  { rewrite EU. cbn [fst]. eapply NW_frame; [|exact N3]. eapply frame_trans; [exact F12|apply frame_passive; auto]. }
  destruct (passive_uptime s CK N1') as (P1 & U & N1). rewrite EU in *. cbn [fst snd] in *. subst u.
  destruct (pa_outs _ _ P1) as (a1 & O1 & Fa1).
  assert (I1 : Inv s1) by (eapply Inv_passive; eauto).
  assert (T1' : Tr s1) by (eapply Tr_passive; eauto).
  assert (Sl1 : slots s1 = slots s) by apply P1.
  destruct CK as (Cl & Cu & CL & C0 & Ct).
  assert (Ay : active ynew = true).
  { unfold active, ynew; cbn. apply andb_true_iff. split; [apply negb_true_iff, Z.eqb_neq; lia|apply Z.ltb_lt; lia]. }
  assert (I2 : Inv s2).
  { subst s2. apply (Inv_set_slot (emit (GArm (now s) ch ms target) s1)); [apply Inv_emit; auto|auto|].
    right. split; auto. split.
    - unfold ynew. constructor; cbn; try lia.
      + unfold rd. cbn [cnt0 tb emit set_outs]. rewrite (pa_cnt0 _ _ P1), (pa_tb _ _ P1). reflexivity.
      + unfold rd. cbn [cnt0 tb emit set_outs]. rewrite (pa_cnt0 _ _ P1), (pa_tb _ _ P1). reflexivity.
      + rewrite (pa_tb _ _ P1), N1. lia.
    - intros j Hj Ne. unfold slot_at. cbn [slots emit set_outs]. rewrite Sl1. cbn [s_chan ynew].
      apply NoCh. apply nth_In. rewrite (i_len _ I). auto. }
  assert (T2 : Tr s2).
  { subst s2. destruct T1'. constructor; cbn [outs set_slots slots now emit set_outs].
    - intros * [E|H]; [discriminate|].
      destruct (tr_fin0 _ _ _ _ _ _ _ H) as (A & B & C & D & G).
      split; [auto|]. split; [auto|]. split; [auto|]. split; [right; auto|].
      intros y Hy Ay' Ey. apply In_upd in Hy. destruct Hy as [->|Hy]; [cbn; lia|]. apply G; auto.
    - intros y Hy Ay'. apply In_upd in Hy. destruct Hy as [->|Hy]; [left; reflexivity|]. right. apply tr_arm0; auto.
    - cbn [fins]. auto. }
  assert (E02 : evo (fun k => k = ch) s s2).
  { intros y Hy Ay'. subst s2. cbn [slots set_slots] in Hy. apply In_upd in Hy. destruct Hy as [->|Hy].
    - right. cbn. split; [lia|reflexivity].
    - left. exists y. rewrite Sl1 in Hy. repeat split; auto; lia. }
  exists s3. split; [exact Es'|].
  split; [eapply Inv_passive; eauto|]. split; [eapply Tr_passive; eauto|]. split; [auto|].
  assert (Now3 : now s3 = now s) by (subst s3; rewrite now_t2_set; subst s2; cbn; auto).
  split; [auto|]. split; [rewrite (pa_tcd _ _ P23); subst s2; cbn; apply P1|].
  split; [rewrite (pa_delay _ _ P23); subst s2; cbn; apply P1|]. split.
  - apply (evo_trans _ s s2 s3); auto. + destruct FU, F12. lia. + apply evo_passive; auto.
  - split.
    + intros y Hy Ay'. rewrite (pa_slots _ _ P23) in Hy. subst s2. cbn [slots set_slots] in Hy.
      apply In_upd in Hy. destruct Hy as [->|Hy]; [right; cbn; auto|left; rewrite <- Sl1; auto].
    + destruct (pa_outs _ _ P23) as (a3 & E3 & F3). exists (a3 ++ GArm (now s) ch ms target :: a1). split.
      * rewrite E3. subst s2. cbn [outs set_slots emit set_outs]. rewrite O1, <- app_assoc. reflexivity.
      * split; [|apply in_or_app; right; left; reflexivity].
        intros o Ho. apply in_app_or in Ho. destruct Ho as [Ho|[<-|Ho]]; [|exact Logic.I|].
        -- rewrite Forall_forall in F3. apply F3 in Ho. destruct o; cbn in *; auto.
        -- rewrite Forall_forall in Fa1. apply Fa1 in Ho. destruct o; cbn in *; auto.
Qed.

Lemma arm_slot_frame c ms gpio ch tg sd s : frame s (countdown_arm_slot c ms gpio ch tg sd s).
Proof.
  unfold countdown_arm_slot. destruct (match find_slot _ _ _ with Some _ => _ | None => _ end); [|apply frame_refl].
  pose proof (frame_uptime s) as FU. destruct (uptime_msec s) as [s1 u]. cbn [fst] in FU.
  set (s2 := set_slots _ _). assert (F12 : frame s1 s2) by (constructor; cbn; try reflexivity; try lia; eexists [_]; reflexivity).
  eapply frame_trans; [exact FU|]. eapply frame_trans; [exact F12|]. eapply frame_trans; [apply frame_passive, passive_t2_set|].
  apply frame_startstop.
Qed.
Lemma arm_slot_spec c ms gpio ch target sender s s' :
  s' = countdown_arm_slot c ms gpio ch target sender s ->
  Good s -> 0 < ms < 4294967296 -> 0 <= ch < 255 -> (forall x, In x (slots s) -> s_chan x <> ch) -> NWw s' ->
  Good s' /\ frame s s' /\ now s' = now s /\ evo (fun k => k = ch) s s'.
Proof.
  intros Es' [I T TT] Hms Hch NoCh N.
  destruct (countdown_arm c ms gpio ch target sender s s' Es' I T Hms Hch NoCh N)
    as [[-> _]|(s3 & E' & I3 & T3 & F03 & Now3 & _ & _ & E03 & _ & _)].
  { split; [constructor; auto|]. split; [apply frame_refl|]. split; [auto|apply evo_refl]. }
  pose proof (startstop_spec s3 (i_tmr _ I3)) as SS. cbv zeta in SS. rewrite <- E' in SS.
  destruct SS as (E1 & E2 & E3 & E4 & E5 & E6 & E7 & E8 & E9 & E10 & TM & TT' & TD).
  assert (F3' : frame s3 s') by (rewrite E'; apply frame_startstop).
  split; [constructor|].
  - eapply Inv_timer; eauto.
  - destruct T3. constructor; rewrite ?E1, ?E7, ?E4; auto.
  - auto.
  - split; [eapply frame_trans; eauto|]. split; [lia|].
    apply (evo_trans _ s s3 s'); auto. + lia. + apply evo_same_slots; auto.
Qed.
(* an evaluation never produces a slot on a channel that had none *)
Lemma evald_nochan s s' ch :
  0 <= ch < 255 -> Inv s -> length (slots s') = 8%nat ->
  (forall i, (i < 8)%nat -> evald (now s) (now s') s (slot_at s i) (slot_at s' i)) ->
  (forall x, In x (slots s) -> s_chan x <> ch) -> forall y, In y (slots s') -> s_chan y <> ch.
Proof.
  intros Hch I L EV No y Hy. destruct (in_slot_at s' y Hy) as (i & Hi & <-). rewrite L in Hi.
  assert (Hin : In (slot_at s i) (slots s)) by (apply slot_at_in; rewrite (i_len _ I); auto).
  destruct (EV i Hi) as [[A B]|(A & tl & R & [[D1 D2]|[D1 D2]])]; rewrite ?B, ?D2; cbn; auto. lia.
Qed.
Lemma countdown_spec e c ms gpio ch target sender s s' :
  s' = countdown e c ms gpio ch target sender s ->
  Good s -> 0 < ms < 4294967296 -> 0 <= ch < 255 -> (forall x, In x (slots s) -> s_chan x <> ch) -> NWw s' ->
  Good s' /\ frame s s' /\ now s' <= now s + 8 * OP /\ evo (fun k => k = ch) s s'.
Proof.
  intros Es' G Hms Hch NoCh N. unfold countdown in Es'.
  assert (OPpos : 0 <= OP) by (destruct consts_ok; unfold OP; lia).
  destruct e.
  - remember (cd_cb c (if t_on (tcd s) then t_due (tcd s) else now s) s) as s0 eqn:Es0.
    assert (N0 : NWw s0) by (eapply NW_frame; [|exact N]; rewrite Es'; apply arm_slot_frame).
    destruct (cd_cb_spec c _ s s0 Es0 (g_inv _ G) (g_tr _ G) N0) as (G0 & F0 & Nw0 & EV & _ & _).
    pose proof (evald_nochan s s0 ch Hch (g_inv _ G) (i_len _ (g_inv _ G0)) EV NoCh) as NoCh0.
    destruct (arm_slot_spec c ms gpio ch target sender s0 s' Es' G0 Hms Hch NoCh0 N) as (G' & F' & Nw' & E').
    split; [auto|]. split; [eapply frame_trans; eauto|]. split; [lia|].
    apply (evo_trans _ s s0 s'); auto. + apply F0.
    + apply evald_evo; auto. apply (g_inv _ G). apply (i_len _ (g_inv _ G0)).
  - destruct (arm_slot_spec c ms gpio ch target sender s s' Es' G Hms Hch NoCh N) as (G' & F' & Nw' & E').
    split; [auto|]. split; [auto|]. split; [lia|auto].
Qed.

(* ---------- commands ---------- *)
(* every running slot of channel ch was armed at or after time t *)
Definition fresh (ch t : Z) (s : st) : Prop :=
  forall y, In y (slots s) -> active y = true -> s_chan y = ch -> t <= g_t0 y.

Lemma s32_range z : -2147483648 <= s32 z < 2147483648.
Proof.
  unfold s32. pose proof (Z.mod_pos_bound z 4294967296 ltac:(lia)).
  destruct (_ <? 2147483648) eqn:E; [apply Z.ltb_lt in E|apply Z.ltb_ge in E]; lia.
Qed.
Lemma find_chan_some rs : forall idx ch a r, find_chan rs idx ch = Some (a, r) -> In r rs /\ r_chan r = ch.
Proof.
  induction rs as [|x rs IH]; intros idx ch a r H; cbn in H; [discriminate|].
  destruct (r_chan x =? ch) eqn:E.
  - injection H as <- <-. apply Z.eqb_eq in E. split; cbn; auto.
  - apply IH in H. destruct H. split; cbn; auto.
Qed.

Lemma set_duration_timer_spec e c ch newv dur sender s s' :
  s' = set_duration_timer e c ch newv dur sender s ->
  wf_cfg c -> Good s -> 0 <= ch < 8 -> dur < 4294967296 -> NWw s' ->
  Good s' /\ frame s s' /\ now s' <= now s + 8 * OP /\ evo (fun k => k = ch) s s' /\ fresh ch (now s) s'.
Proof.
  intros Es' W G Hch Hdur N. unfold set_duration_timer in Es'.
  set (stair := (ch <? ST_T2_COUNT) && (ch <? T2_COUNT) && (0 <? getz (time2 s) ch)) in *.
  remember (if stair && (newv =? 0) then set_ram_t2 (setz (ram_t2 s) ch 0) s else s) as s0 eqn:Es0.
  set (dur1 := if stair then _ else dur) in *.
  assert (P0 : passive s s0) by (subst s0; destruct (stair && (newv =? 0)); [apply passive_set_ram_t2|apply passive_refl]).
  assert (N0 : now s0 = now s) by (subst s0; destruct (stair && (newv =? 0)); reflexivity).
  assert (Hd1 : dur1 < 4294967296).
  { unfold dur1. destruct stair; auto. destruct (newv =? 0); [lia|]. destruct (_ || _); auto.
    pose proof (s32_range (getz (time2 s) ch)). lia. }
  rewrite u8_small in Es' by lia.
  assert (G0 : Good s0).
  { destruct G. constructor; [eapply Inv_passive; eauto|eapply Tr_passive; eauto|].
    intros x Hx Ax. rewrite (pa_slots _ _ P0) in Hx. rewrite (pa_delay _ _ P0), (pa_tcd _ _ P0). auto. }
  destruct (disarm_spec c ch s0 ltac:(lia) G0) as (G1 & F1 & D1 & C1 & N1 & NoCh & E1 & _).
  remember (disarm c ch s0) as s1 eqn:Es1. clear Es1.
  assert (E01 : evo (fun k => k = ch) s s1).
  { apply (evo_trans _ s s0 s1); [lia|apply evo_passive; auto|]. eapply evo_weaken; [|exact E1]. intros; contradiction. }
  assert (Fr1 : fresh ch (now s) s1).
  { intros y Hy Ay Ey. exfalso. apply (NoCh y Hy Ey). }
  assert (F01 : frame s s1) by (eapply frame_trans; [apply frame_passive; exact P0|exact F1]).
  assert (OPpos : 0 <= OP) by (destruct consts_ok; unfold OP; lia).
  destruct (0 <? dur1) eqn:Ed.
  2:{ subst s'. split; [auto|]. split; [auto|]. split; [lia|]. split; auto. }
  apply Z.ltb_lt in Ed.
  destruct (find_chan (c_relays c) 0 ch) as [[a r]|] eqn:EFC.
  2:{ subst s'. split; [auto|]. split; [auto|]. split; [lia|]. split; auto. }
  set (f := getz (chfl s1) a) in *.
  remember (if (newv =? 1) || hasf f CHFLAG_COUNTDOWN
            then countdown e c (u32 dur1) (r_gpio r) ch (if newv =? 0 then 1 else 0) sender s1 else s1) as s2 eqn:Es2.
  assert (P23 : passive s2 s') by (subst s'; destruct (hasf f _); [apply passive_ext_changed|apply passive_refl]).
  assert (N23 : now s' = now s2) by (subst s'; destruct (hasf f _); [apply now_ext_changed|reflexivity]).
  assert (N2 : NWw s2) by (eapply NW_passive; eauto).
  assert (H2 : Good s2 /\ frame s1 s2 /\ now s2 <= now s1 + 8 * OP /\ evo (fun k => k = ch) s1 s2).
  { destruct ((newv =? 1) || hasf f CHFLAG_COUNTDOWN).
    - rewrite u32_small in Es2 by lia. eapply countdown_spec; eauto; lia.
    - subst s2. split; [auto|]. split; [apply frame_refl|]. split; [lia|apply evo_refl]. }
  destruct H2 as (G2 & F2 & Nw2 & E2).
  split; [|split; [|split; [|split]]].
  - destruct G2. constructor; [eapply Inv_passive; eauto|eapply Tr_passive; eauto|].
    intros x Hx Ax. rewrite (pa_slots _ _ P23) in Hx. rewrite (pa_delay _ _ P23), (pa_tcd _ _ P23). auto.
  - eapply frame_trans; [exact F01|]. eapply frame_trans; [exact F2|]. apply frame_passive; auto.
  - lia.
  - apply (evo_trans _ s s1 s'); [lia|auto|]. apply (evo_trans _ s1 s2 s'); [destruct F2; lia|auto|apply evo_passive; auto].
  - intros y Hy Ay Ey. rewrite (pa_slots _ _ P23) in Hy.
    destruct (E2 y Hy Ay) as [(x & Hx & Ax & (I1 & _) & _)|[A _]]; [|lia].
    exfalso. apply (NoCh x Hx). congruence.
Qed.

Lemma Good_passive s s' : passive s s' -> Good s -> Good s'.
Proof.
  intros P [I T TT]. constructor; [eapply Inv_passive; eauto|eapply Tr_passive; eauto|].
  intros x Hx Ax. rewrite (pa_slots _ _ P) in Hx. rewrite (pa_delay _ _ P), (pa_tcd _ _ P). auto.
Qed.
Lemma fresh_passive ch t s s' : passive s s' -> fresh ch t s -> fresh ch t s'.
Proof. intros P F y Hy. rewrite (pa_slots _ _ P) in Hy. auto. Qed.

Lemma channel_set_value_spec e c ch v dur sender s s' :
  s' = channel_set_value e c ch v dur sender s ->
  wf_cfg c -> Good s -> NWw s' ->
  Good s' /\ frame s s' /\ now s' <= now s + 9 * OP /\ evo (fun k => k = ch) s s' /\
  (forall r, In r (c_relays c) -> r_chan r = ch -> fresh ch (now s) s').
Proof.
  intros Es' W G N. unfold channel_set_value in Es'.
  assert (OPpos : 0 <= OP) by (destruct consts_ok; unfold OP; lia).
  destruct (find_chan (c_relays c) 0 ch) as [[a r]|] eqn:EFC.
  2:{ assert (P : passive s s') by (subst s'; apply passive_set_result).
      assert (Nw : now s' = now s) by (subst s'; apply now_set_result).
      split; [eapply Good_passive; eauto|]. split; [apply frame_passive; auto|]. split; [lia|]. split; [apply evo_passive; auto|].
      intros r Hr Er. exfalso. clear - EFC Hr Er. revert EFC. generalize 0.
      induction (c_relays c) as [|x l IH]; intros z H; cbn in *; [contradiction|].
      destruct (r_chan x =? ch) eqn:E; [discriminate|]. destruct Hr as [<-|Hr]; [apply Z.eqb_neq in E; contradiction|]. eapply IH; eauto. }
  destruct (find_chan_some _ _ _ _ _ EFC) as [Hr Er]. pose proof (wf_chan _ W r Hr) as Hc. rewrite Er in *.
  remember (set_duration_timer e c ch v (s32 dur) sender s) as s1 eqn:Es1.
  pose proof (passive_chan_set_value c (r_gpio r) v ch s1) as P12.
  pose proof (now_chan_set_value c (r_gpio r) v ch s1) as N12.
  destruct (chan_set_value c (r_gpio r) v ch s1) as [s2 ok]. cbn [fst] in *.
  assert (P2' : passive s2 s') by (subst s'; apply passive_set_result).
  assert (Nw : now s' = now s2) by (subst s'; apply now_set_result).
  pose proof (passive_trans _ _ _ P12 P2') as P1'.
  assert (N1 : NWw s1) by (eapply NW_passive; eauto).
  pose proof (s32_range dur).
  destruct (set_duration_timer_spec e c ch v (s32 dur) sender s s1 Es1 W G Hc ltac:(lia) N1) as (G1 & F1 & Nw1 & E1 & Fr1).
  split; [eapply Good_passive; eauto|]. split; [eapply frame_trans; [exact F1|apply frame_passive; auto]|].
  split; [lia|]. split.
  - apply (evo_trans _ s s1 s'); [destruct F1; lia|auto|apply evo_passive; auto].
  - intros _ _ _. eapply fresh_passive; eauto.
Qed.

Lemma last_chan_spec rs port : forall acc, (acc = -1 \/ exists r, In r rs /\ r_chan r = acc) \/ True ->
  let ch := last_chan rs port acc in ch = acc \/ exists r, In r rs /\ r_chan r = ch /\ r_gpio r = port.
Proof.
  induction rs as [|x rs IH]; intros acc _; cbn; auto.
  destruct (r_gpio x =? port) eqn:E.
  - apply Z.eqb_eq in E. destruct (IH (r_chan x) (or_intror Logic.I)) as [->|(r & A & B & C)].
    + right. exists x. cbn; auto.
    + right. exists r. cbn; auto.
  - destruct (IH acc (or_intror Logic.I)) as [->|(r & A & B & C)]; auto. right. exists r. cbn; auto.
Qed.

Lemma relay_switch_spec e c port hi s s' :
  s' = relay_switch e c port hi s ->
  wf_cfg c -> Good s -> NWw s' ->
  let ch := last_chan (c_relays c) port (-1) in
  Good s' /\ frame s s' /\ now s' <= now s + 9 * OP /\ evo (fun k => k = ch) s s' /\ (0 <= ch -> fresh ch (now s) s').
Proof.
  intros Es' W G N ch. unfold relay_switch in Es'. fold ch in Es'.
  assert (OPpos : 0 <= OP) by (destruct consts_ok; unfold OP; lia).
  destruct (ch <? 0) eqn:Ec.
  { subst s'. apply Z.ltb_lt in Ec. split; [auto|]. split; [apply frame_refl|]. split; [lia|]. split; [apply evo_refl|]. intros; lia. }
  apply Z.ltb_ge in Ec.
  destruct (last_chan_spec (c_relays c) port (-1) (or_intror Logic.I)) as [E|(r & Hr & Er & _)]; [fold ch in E; lia|].
  fold ch in Er. pose proof (wf_chan _ W r Hr) as Hc. rewrite Er in Hc.
  destruct consts_ok. destruct cf_t3 as [CT1 CT2].
  set (hi1 := if _ && _ && _ && _ then HI else hi) in *.
  set (hi2 := if hi1 =? 255 then _ else hi1) in *.
  assert (Lt : (ch <? ST_T2_COUNT) = true) by (apply Z.ltb_lt; lia). rewrite Lt in Es'.
  remember (set_ram_t2 (setz (ram_t2 s) ch 0) s) as s0 eqn:Es0.
  assert (P0 : passive s s0) by (subst s0; apply passive_set_ram_t2).
  assert (N0 : now s0 = now s) by (subst s0; reflexivity).
  remember (set_duration_timer e c ch hi2 0 0 s0) as s1 eqn:Es1.
  remember (relay_hi c port hi2 s1) as s2 eqn:Es2.
  assert (P12 : passive s1 s2) by (subst s2; apply passive_relay_hi).
  assert (N12 : now s2 = now s1 + OP) by (subst s2; apply now_relay_hi).
  assert (P2' : passive s2 s') by (subst s'; apply passive_value_changed).
  assert (Nw : now s' = now s2) by (subst s'; apply now_value_changed).
  pose proof (passive_trans _ _ _ P12 P2') as P1'.
  assert (N1 : NWw s1) by (eapply NW_passive; eauto).
  destruct (set_duration_timer_spec e c ch hi2 0 0 s0 s1 Es1 W (Good_passive _ _ P0 G) Hc ltac:(lia) N1) as (G1 & F1 & Nw1 & E1 & Fr1).
  split; [eapply Good_passive; eauto|].
  split; [eapply frame_trans; [apply frame_passive; exact P0|]; eapply frame_trans; [exact F1|apply frame_passive; auto]|].
  split; [lia|]. split.
  - apply (evo_trans _ s s0 s'); [lia|apply evo_passive; auto|]. apply (evo_trans _ s0 s1 s'); [destruct F1; lia|auto|apply evo_passive; auto].
  - intros _. rewrite <- N0. eapply fresh_passive; eauto.
Qed.

(* ---------- the timer double: fire / adv / advance ---------- *)
(* a step that only moves the clock forward and re-arms timers without changing the period of the shared one *)
Lemma Good_tick s s' :
  slots s' = slots s -> delay s' = delay s -> cnt0 s' = cnt0 s -> tb s' = tb s -> upc s' = upc s -> upl s' = upl s ->
  outs s' = outs s -> now s <= now s' ->
  (t_on (tcd s') = t_on (tcd s) /\ t_per (tcd s') = t_per (tcd s)) ->
  Good s -> Good s'.
Proof.
  intros E1 E2 E3 E4 E5 E6 E7 Hn [E8 E9] [[] [] TT]. unfold ClockOK, TmrOK, slot_at in *.
  constructor; [constructor|constructor|]; unfold ClockOK, TmrOK, slot_at; rewrite ?E1, ?E2, ?E3, ?E4, ?E5, ?E6, ?E7, ?E8, ?E9; auto.
  - lia.
  - intros x Hx Ax. destruct (i_ok0 x Hx Ax). constructor; unfold rd in *; rewrite ?E3, ?E4; auto. lia.
  - intros * H. destruct (tr_fin0 _ _ _ _ _ _ _ H) as (A & B & C & D & G). repeat split; auto. lia.
  - intros x Hx Ax. rewrite E1 in Hx. unfold T1 in TT. rewrite E2, E8, E9. apply TT; auto.
Qed.

Lemma pick_some s end_ i : pick s end_ = Some i -> due_ok (get_t i s) end_ = true.
Proof.
  unfold pick. set (P := fun i => due_ok (get_t i s) end_).
  assert (G : forall l best, (forall b, best = Some b -> P b = true) ->
            fold_left (fun best i => match best with None => Some i | Some b => if before (get_t i s) (get_t b s) then Some i else Some b end)
                      (filter P l) best = Some i -> P i = true).
  { induction l as [|x l IH]; intros best Hb H; cbn in H; [apply Hb; auto|].
    destruct (P x) eqn:Px; [|eapply IH; eauto]. cbn in H. eapply IH; [|exact H].
    intros b Eb. destruct best as [b0|]; [destruct (before _ _); injection Eb as <-; auto|injection Eb as <-; auto]. }
  intros H. apply (G [TCD; TSV; TUP] None); auto. intros; discriminate.
Qed.
Lemma pick_none s end_ : pick s end_ = None -> forall i, due_ok (get_t i s) end_ = false.
Proof.
  unfold pick. set (P := fun i => due_ok (get_t i s) end_). intros H.
  assert (E : filter P [TCD; TSV; TUP] = []).
  { destruct (filter P [TCD; TSV; TUP]) as [|x l] eqn:EF; auto. exfalso.
    assert (G : forall l best, best <> None ->
              fold_left (fun best i => match best with None => Some i | Some b => if before (get_t i s) (get_t b s) then Some i else Some b end) l best <> None).
    { induction l0 as [|y l0 IH]; intros best Hb; cbn; auto. apply IH. destruct best; [destruct (before _ _)|]; discriminate. }
    cbn in H. apply (G l (Some x)); [discriminate|exact H]. }
  intros i. assert (In i [TCD; TSV; TUP]) by (destruct i; cbn; auto).
  destruct (P i) eqn:Pi; auto. assert (In i (filter P [TCD; TSV; TUP])) by (apply filter_In; auto). rewrite E in *. contradiction.
Qed.

Lemma fire_spec e c i s s' :
  s' = fire e c i s -> wf_cfg c -> Good s -> t_on (get_t i s) = true -> NWw s' ->
  Good s' /\ frame s s' /\ evo (fun _ => False) s s'.
Proof.
  intros Es' W G Hon N. unfold fire in Es'.
  set (t := get_t i s) in *. set (n := len (c_late c)) in *.
  set (late := if 0 <? n then getz (c_late c) (li s mod n) else 0) in *.
  remember (if 0 <? n then set_li (li s + 1) s else s) as s1 eqn:Es1.
  remember (if now s1 <? t_due t + late then set_now (t_due t + late) s1 else s1) as s2 eqn:Es2.
  remember (if negb (t_per t =? 0)
            then set_t i {| t_on := true; t_due := t_due t + t_per t; t_seq := seqc s2 + 1; t_per := t_per t |} (set_seqc (seqc s2 + 1) s2)
            else set_t i {| t_on := false; t_due := t_due t; t_seq := t_seq t; t_per := 0 |} s2) as s3 eqn:Es3.
  assert (A1 : slots s1 = slots s /\ delay s1 = delay s /\ cnt0 s1 = cnt0 s /\ tb s1 = tb s /\ upc s1 = upc s /\ upl s1 = upl s /\
               outs s1 = outs s /\ now s1 = now s /\ tcd s1 = tcd s /\ tsv s1 = tsv s /\ tup s1 = tup s)
    by (subst s1; destruct (0 <? n); repeat split; reflexivity).
  destruct A1 as (a1 & a2 & a3 & a4 & a5 & a6 & a7 & a8 & a9 & a10 & a11).
  assert (A2 : slots s2 = slots s /\ delay s2 = delay s /\ cnt0 s2 = cnt0 s /\ tb s2 = tb s /\ upc s2 = upc s /\ upl s2 = upl s /\
               outs s2 = outs s /\ now s <= now s2 /\ tcd s2 = tcd s /\ tsv s2 = tsv s /\ tup s2 = tup s).
  { subst s2. destruct (now s1 <? t_due t + late) eqn:E; [apply Z.ltb_lt in E|]; cbn;
      rewrite ?a1, ?a2, ?a3, ?a4, ?a5, ?a6, ?a7, ?a8, ?a9, ?a10, ?a11; repeat split; auto; try lia. }
  destruct A2 as (b1 & b2 & b3 & b4 & b5 & b6 & b7 & b8 & b9 & b10 & b11).
  assert (TM : TmrOK s) by apply G.
  assert (A3 : slots s3 = slots s /\ delay s3 = delay s /\ cnt0 s3 = cnt0 s /\ tb s3 = tb s /\ upc s3 = upc s /\ upl s3 = upl s /\
               outs s3 = outs s /\ now s <= now s3 /\ (t_on (tcd s3) = t_on (tcd s) /\ t_per (tcd s3) = t_per (tcd s))).
  { subst s3. destruct TM as (D0 & Dz & Dp).
    destruct i; cbn [set_t]; unfold t, get_t in *.
    - (* the shared countdown timer is periodic while it is armed *)
      assert (0 < delay s) by (destruct (Z.eq_dec (delay s) 0) as [Z0|]; [rewrite (Dz Z0) in Hon; discriminate|lia]).
      destruct (Dp H) as [_ Pp]. assert (t_per (tcd s) <> 0) by lia.
      destruct (t_per (tcd s) =? 0) eqn:E0; [apply Z.eqb_eq in E0; lia|]. cbn.
      rewrite b1, b2, b3, b4, b5, b6, b7. repeat split; auto.
    - destruct (negb _); cbn; rewrite b1, b2, b3, b4, b5, b6, b7, b9; repeat split; auto.
    - destruct (negb _); cbn; rewrite b1, b2, b3, b4, b5, b6, b7, b9; repeat split; auto. }
  destruct A3 as (c1 & c2 & c3 & c4 & c5 & c6 & c7 & c8 & c9).
  assert (G3 : Good s3) by (eapply Good_tick; eauto).
  assert (F3 : frame s s3).
  { apply (frame_trans s s1 s3); [|apply (frame_trans s1 s2 s3)].
    - subst s1. destruct (0 <? n); constructor; cbn; try reflexivity; try lia; exists []; auto.
    - subst s2. destruct (now s1 <? t_due t + late) eqn:E; [apply Z.ltb_lt in E|]; constructor; cbn; try reflexivity; try lia; exists []; auto.
    - subst s3. destruct (negb _); destruct i; constructor; cbn; try reflexivity; try lia; exists []; auto. }
  assert (E3 : evo (fun _ => False) s s3) by (apply evo_same_slots; auto).
  unfold run_cb in Es'. destruct i.
  - destruct G3 as [I3 T3 _].
    destruct (cd_cb_spec c _ s3 s' Es' I3 T3 N) as (G' & F' & _ & EV & _).
    split; [auto|]. split; [eapply frame_trans; eauto|].
    apply (evo_trans _ s s3 s'); auto. apply evald_evo; auto. apply (i_len _ (g_inv _ G')).
  - assert (P : passive s3 s') by (subst s'; apply passive_do_save).
    split; [eapply Good_passive; eauto|]. split; [eapply frame_trans; [exact F3|apply frame_passive; auto]|].
    apply (evo_trans _ s s3 s'); auto. apply evo_passive; auto.
  - assert (P : passive s3 s') by (rewrite Es'; apply passive_uptime_usec; [apply (i_clk _ (g_inv _ G3))|rewrite <- Es'; exact N]).
    assert (F' : frame s3 s') by (apply frame_passive; exact P).
    split; [eapply Good_passive; eauto|]. split; [eapply frame_trans; eauto|].
    apply (evo_trans _ s s3 s'); auto. apply evo_passive; auto.
Qed.

Lemma fire_frame e c i s : frame s (fire e c i s).
Proof.
  unfold fire. set (t := get_t i s). set (n := len (c_late c)). set (late := if 0 <? n then _ else 0).
  set (s1 := if 0 <? n then set_li (li s + 1) s else s).
  set (s2 := if now s1 <? t_due t + late then set_now (t_due t + late) s1 else s1).
  set (s3 := if negb (t_per t =? 0) then _ else _).
  assert (F3 : frame s s3).
  { apply (frame_trans s s1 s3); [|apply (frame_trans s1 s2 s3)].
    - unfold s1. destruct (0 <? n); constructor; cbn; try reflexivity; try lia; exists []; auto.
    - unfold s2. destruct (now s1 <? t_due t + late) eqn:E; [apply Z.ltb_lt in E|]; constructor; cbn; try reflexivity; try lia; exists []; auto.
    - unfold s3. destruct (negb _); destruct i; constructor; cbn; try reflexivity; try lia; exists []; auto. }
  eapply frame_trans; [exact F3|]. unfold run_cb. destruct i.
  - apply cd_cb_frame.
  - apply frame_passive, passive_do_save.
  - apply frame_uptime_usec.
Qed.
Lemma adv_frame e c fuel : forall end_ s, frame s (adv e c fuel end_ s).
Proof.
  induction fuel as [|k IH]; intros end_ s; cbn [adv].
  - apply frame_emit.
  - destruct (pick s end_); [|apply frame_refl]. eapply frame_trans; [apply fire_frame|apply IH].
Qed.
Lemma adv_spec e c fuel : forall end_ s s',
  s' = adv e c fuel end_ s -> wf_cfg c -> Good s -> NWw s' ->
  Good s' /\ evo (fun _ => False) s s'.
Proof.
  induction fuel as [|k IH]; intros end_ s s' Es' W G N; cbn [adv] in Es'.
  - assert (P : passive s s') by (subst s'; apply passive_emit; exact Logic.I).
    split; [eapply Good_passive; eauto|apply evo_passive; auto].
  - destruct (pick s end_) as [i|] eqn:EP.
    2:{ subst s'. split; auto. apply evo_refl. }
    apply pick_some in EP. unfold due_ok in EP. apply andb_true_iff in EP. destruct EP as [Hon _].
    remember (fire e c i s) as s1 eqn:Es1.
    assert (N1 : NWw s1) by (eapply NW_frame; [|exact N]; subst s'; apply adv_frame).
    destruct (fire_spec e c i s s1 Es1 W G Hon N1) as (G1 & F1 & E1).
    destruct (IH end_ s1 s' Es' W G1 N) as (G' & E').
    split; auto. apply (evo_trans _ s s1 s'); auto. apply F1.
Qed.
Lemma advance_frame e c dt s : 0 <= dt -> frame s (advance e c dt s).
Proof.
  intros Hdt. unfold advance. set (s1 := adv _ _ _ _ _).
  assert (F : frame s s1) by apply adv_frame.
  destruct (now s1 <? now s + dt) eqn:E; auto. apply Z.ltb_lt in E.
  eapply frame_trans; [exact F|]. constructor; cbn; try reflexivity; try lia. exists []; auto.
Qed.
Lemma advance_spec e c dt s s' :
  s' = advance e c dt s -> wf_cfg c -> Good s -> NWw s' ->
  Good s' /\ evo (fun _ => False) s s' /\ now s + dt <= now s'.
Proof.
  intros Es' W G N. unfold advance in Es'.
  remember (adv e c (Z.to_nat (dt / 20000 + 64)) (now s + dt) s) as s1 eqn:Es1.
  assert (F1 : frame s s1) by (subst s1; apply adv_frame).
  destruct (now s1 <? now s + dt) eqn:E; [apply Z.ltb_lt in E|apply Z.ltb_ge in E].
  - assert (N1 : NWw s1) by (apply (NW_ext s1 s'); [subst s'; reflexivity|subst s'; reflexivity|subst s'; cbn; lia|exists []; subst s'; reflexivity|exact N]).
    destruct (adv_spec e c _ _ s s1 Es1 W G N1) as (G1 & E1).
    split; [|split].
    + subst s'. eapply Good_tick; [..|exact G1]; try reflexivity; cbn; try lia. split; reflexivity.
    + apply (evo_trans _ s s1 s'); [apply F1|auto|]. subst s'. apply evo_same_slots. reflexivity.
    + subst s'. cbn. lia.
  - subst s'. destruct (adv_spec e c _ _ s s1 Es1 W G N) as (G1 & E1). split; [auto|]. split; [auto|lia].
Qed.

(* ---------- unconditional frames (needed to push the no-wrap hypothesis backwards) ---------- *)
Lemma disarm_frame c ch s : frame s (disarm c ch s).
Proof.
  unfold disarm. destruct (find_slot _ _ _); [|apply frame_refl].
  set (s1 := set_slots _ s). assert (F1 : frame s s1) by (constructor; cbn; try reflexivity; try lia; exists []; auto).
  destruct (0 <? _); auto. eapply frame_trans; [exact F1|]. eapply frame_trans; [apply frame_passive, passive_t2_set|].
  destruct (chflags_of _ _ _); [destruct (hasf _ _)|]; try apply frame_refl. apply frame_passive, passive_ext_changed.
Qed.
Lemma countdown_frame e c ms gpio ch tg sd s : frame s (countdown e c ms gpio ch tg sd s).
Proof.
  unfold countdown. eapply frame_trans; [|apply arm_slot_frame]. destruct e; [apply cd_cb_frame|apply frame_refl].
Qed.
Lemma sdt_frame e c ch nv dur sd s : frame s (set_duration_timer e c ch nv dur sd s).
Proof.
  unfold set_duration_timer.
  set (stair := (ch <? ST_T2_COUNT) && (ch <? T2_COUNT) && (0 <? getz (time2 s) ch)).
  set (s0 := if stair && (nv =? 0) then set_ram_t2 (setz (ram_t2 s) ch 0) s else s).
  set (dur1 := if stair then _ else dur).
  assert (F0 : frame s s0) by (unfold s0; destruct (stair && (nv =? 0)); [apply frame_passive, passive_set_ram_t2|apply frame_refl]).
  set (s1 := disarm c (u8 ch) s0). assert (F1 : frame s0 s1) by apply disarm_frame.
  pose proof (frame_trans _ _ _ F0 F1) as F01.
  destruct (0 <? dur1); auto. destruct (find_chan (c_relays c) 0 ch) as [[a r]|]; auto.
  set (f := getz (chfl s1) a).
  set (s2 := if (nv =? 1) || hasf f CHFLAG_COUNTDOWN then _ else s1).
  assert (F2 : frame s1 s2) by (unfold s2; destruct ((nv =? 1) || hasf f CHFLAG_COUNTDOWN); [apply countdown_frame|apply frame_refl]).
  eapply frame_trans; [exact F01|]. eapply frame_trans; [exact F2|].
  destruct (hasf f CHFLAG_COUNTDOWN); [apply frame_passive, passive_ext_changed|apply frame_refl].
Qed.
Lemma restore_relay_frame e c s ar : frame s (restore_relay e c s ar).
Proof.
  unfold restore_relay. destruct ar as [a r]. destruct (_ || _).
  - eapply frame_trans; [|apply frame_passive, passive_relay_hi]. destruct (_ && _); [apply sdt_frame|apply frame_refl].
  - destruct (hasf _ _); [apply frame_passive, passive_relay_hi|apply frame_refl].
Qed.
Lemma fold_restore_frame e c l : forall s, frame s (fold_left (restore_relay e c) l s).
Proof. induction l as [|x l IH]; intros s; cbn; [apply frame_refl|]. eapply frame_trans; [apply restore_relay_frame|apply IH]. Qed.
Lemma csv_frame e c ch v dur sd s : frame s (channel_set_value e c ch v dur sd s).
Proof.
  unfold channel_set_value. destruct (find_chan _ _ _) as [[a r]|]; [|apply frame_passive, passive_set_result].
  pose proof (passive_chan_set_value c (r_gpio r) v ch (set_duration_timer e c (r_chan r) v (s32 dur) sd s)) as P.
  destruct (chan_set_value _ _ _ _ _) as [s2 ok]. cbn [fst] in P.
  eapply frame_trans; [apply sdt_frame|]. eapply frame_trans; [apply frame_passive; exact P|]. apply frame_passive, passive_set_result.
Qed.
Lemma rsw_frame e c port hi s : frame s (relay_switch e c port hi s).
Proof.
  unfold relay_switch. destruct (_ <? 0); [apply frame_refl|].
  eapply frame_trans; [|apply frame_passive, passive_value_changed].
  eapply frame_trans; [|apply frame_passive, passive_relay_hi].
  destruct (_ <? ST_T2_COUNT); [|apply frame_refl].
  eapply frame_trans; [apply frame_passive, passive_set_ram_t2|apply sdt_frame].
Qed.

(* ---------- boot ---------- *)
Lemma free_inactive x : In x (repeat slot_free 8) -> active x = false /\ s_chan x = 255.
Proof. intros H. apply repeat_spec in H. subst. split; reflexivity. Qed.

Lemma restore_relay_spec e c s s' a r :
  s' = restore_relay e c s (a, r) -> wf_cfg c -> In r (c_relays c) -> Good s -> NWw s' ->
  Good s' /\ evo (fun _ => True) s s'.
Proof.
  intros Es' W Hr G N. unfold restore_relay in Es'. pose proof (wf_chan _ W r Hr) as Hc.
  destruct (_ || _).
  - destruct consts_ok. destruct cf_t3 as [CT1 CT2].
    assert (Lt : (0 <=? r_chan r) && (r_chan r <? ST_T2_COUNT) = true) by (apply andb_true_iff; split; [apply Z.leb_le|apply Z.ltb_lt]; lia).
    rewrite Lt in Es'.
    remember (set_duration_timer e c (r_chan r) (s8 (getz (ram_relay s) a)) (s32 (getz (ram_t2 s) (r_chan r))) 0 s) as s1 eqn:Es1.
    assert (P : passive s1 s') by (subst s'; apply passive_relay_hi).
    assert (N1 : NWw s1) by (eapply NW_passive; eauto).
    pose proof (s32_range (getz (ram_t2 s) (r_chan r))).
    destruct (set_duration_timer_spec e c _ _ _ _ s s1 Es1 W G Hc ltac:(lia) N1) as (G1 & F1 & Nw1 & E1 & _).
    split; [eapply Good_passive; eauto|].
    apply (evo_trans _ s s1 s'); [apply F1| |apply evo_passive; auto]. eapply evo_weaken; [|exact E1]. auto.
  - destruct (hasf _ _).
    + assert (P : passive s s') by (subst s'; apply passive_relay_hi). split; [eapply Good_passive; eauto|apply evo_passive; auto].
    + subst s'. split; auto. apply evo_refl.
Qed.
Lemma fold_restore_spec e c : forall l s s',
  s' = fold_left (restore_relay e c) l s -> wf_cfg c -> (forall ar, In ar l -> In (snd ar) (c_relays c)) -> Good s -> NWw s' ->
  Good s' /\ evo (fun _ => True) s s'.
Proof.
  induction l as [|[a r] l IH]; intros s s' Es' W Hl G N; cbn [fold_left] in Es'.
  - subst s'. split; auto. apply evo_refl.
  - remember (restore_relay e c s (a, r)) as s1 eqn:Es1.
    assert (N1 : NWw s1) by (eapply NW_frame; [|exact N]; subst s'; apply fold_restore_frame).
    destruct (restore_relay_spec e c s s1 a r Es1 W (Hl (a, r) (or_introl eq_refl)) G N1) as (G1 & E1).
    destruct (IH s1 s' Es' W (fun ar H => Hl ar (or_intror H)) G1 N) as (G' & E').
    split; auto. apply (evo_trans _ s s1 s'); auto. subst s1. apply restore_relay_frame.
Qed.
Lemma enum_snd {A} (l : list A) : forall i ar, In ar (enum i l) -> In (snd ar) l.
Proof. induction l as [|x l IH]; intros i ar H; cbn in *; [contradiction|]. destruct H as [<-|H]; cbn; auto. right. eapply IH; eauto. Qed.

(* the part of the trace invariant that does not mention the slot table *)
Record TrO (s : st) : Prop := {
  to_fin : forall tcb ch tg t0 dur u0 u, In (GFinish tcb ch tg t0 dur u0 u) (outs s) ->
     (dur - 1) * 1000 < tcb - t0 /\ 0 < dur /\ tcb <= now s /\ In (GArm t0 ch dur tg) (outs s);
  to_uniq : NoDup (fins (outs s))
}.
Lemma Tr_TrO s : Tr s -> TrO s.
Proof. intros []. constructor; auto. intros * H. destruct (tr_fin0 _ _ _ _ _ _ _ H) as (A & B & C & D & _). auto. Qed.

Lemma boot_spec e c s s' :
  s' = boot e c s -> wf_cfg c -> TrO s -> 0 <= cnt0 s -> tb s <= now s -> 0 <= upc s -> upc s * 4294967296 <= cnt0 s + (now s - tb s) -> NWw s' ->
  Good s' /\ cnt0 s' = cnt0 s /\ tb s' = tb s /\ now s <= now s' /\ (exists add, outs s' = add ++ outs s) /\
  (forall y, In y (slots s') -> active y = true -> now s <= g_t0 y).
Proof.
  intros Es' W TO C0 Ct Cu CL N. unfold boot, boot_l in Es'.
  remember (t_arm TUP UPTIME_POLL_MS true (set_upl 0 (set_seqc 0 (set_li 0 (set_tcd tmr0 (set_tsv tmr0 (set_tup tmr0 s))))))) as s1 eqn:Es1.
  remember (set_ram_relay (fl_relay s1) (set_ram_t2 (fl_t2 s1) s1)) as s2 eqn:Es2.
  remember (set_slots (repeat slot_free 8) (set_delay 0 s2)) as s3 eqn:Es3.
  remember (set_chfl (if c_lateflags c then map (fun _ => 0) (c_relays c) else map r_chfl (c_relays c)) s3) as s4 eqn:Es4.
  remember (set_obuf [] (set_regreq false (set_queue [] (set_conn false (set_reg false (set_gout 0 s4)))))) as s5 eqn:Es5.
  remember (fold_left (restore_relay false c) (enum 0 (c_relays c)) s5) as s6 eqn:Es6.
  assert (A5 : slots s5 = repeat slot_free 8 /\ delay s5 = 0 /\ tcd s5 = tmr0 /\ cnt0 s5 = cnt0 s /\ tb s5 = tb s /\ now s5 = now s /\
               upc s5 = upc s /\ upl s5 = 0 /\ outs s5 = outs s /\ time2 s5 = time2 s).
  { subst s5 s4 s3 s2 s1. cbn. repeat split; reflexivity. }
  destruct A5 as (a1 & a2 & a3 & a4 & a5 & a6 & a7 & a8 & a9 & a10).
  assert (G5 : Good s5).
  { constructor; [constructor|constructor|]; unfold ClockOK, TmrOK, slot_at; rewrite ?a1, ?a2, ?a3, ?a4, ?a5, ?a6, ?a7, ?a8, ?a9.
    - apply repeat_length.
    - lia.
    - intros x Hx. left. apply (free_inactive x Hx).
    - intros x Hx Ax. destruct (free_inactive x Hx). congruence.
    - intros i j Hi Hj _ Ne. exfalso. apply Ne. apply (free_inactive (nth i (repeat slot_free 8) slot_free)). apply nth_In. rewrite repeat_length. auto.
    - cbn. repeat split; auto; lia.
    - intros * H. destruct (to_fin _ TO _ _ _ _ _ _ _ H) as (A & B & C & D). repeat split; auto.
      intros x Hx Ax. destruct (free_inactive x Hx). congruence.
    - intros x Hx Ax. destruct (free_inactive x Hx). congruence.
    - apply TO.
    - intros x Hx Ax. rewrite a1 in Hx. destruct (free_inactive x Hx). congruence. }
  remember (fst (uptime_usec s6)) as s7 eqn:Es7.
  assert (F67 : frame s6 s7) by (subst s7; apply frame_uptime_usec).
  assert (F7' : frame s7 s') by (subst s'; constructor; cbn; try reflexivity; try lia; exists []; auto).
  pose proof (frame_trans _ _ _ F67 F7') as F6'.
  assert (N6 : NWw s6) by (eapply NW_frame; eauto).
  destruct (fold_restore_spec false c _ s5 s6 Es6 W (enum_snd _ 0) G5 N6) as (G6 & E6).
  assert (F56 : frame s5 s6) by (subst s6; apply fold_restore_frame).
  assert (P67 : passive s6 s7).
  { assert (N7 : NWw s7) by (eapply NW_frame; [exact F7'|exact N]).
    rewrite Es7. apply passive_uptime_usec; [apply (i_clk _ (g_inv _ G6))|rewrite <- Es7; exact N7]. }
  assert (G7 : Good s7) by (eapply Good_passive; eauto).
  assert (S67 : slots s7 = slots s6) by apply P67.
  assert (G' : Good s').
  { subst s'. eapply Good_tick; [..|exact G7]; try reflexivity; cbn; try lia. split; reflexivity. }
  split; [auto|]. destruct F56, F6'.
  split; [congruence|]. split; [congruence|]. split; [lia|]. split.
  - destruct fr_outs0 as (x & E1), fr_outs1 as (y & E2). exists (y ++ x). rewrite E2, E1, a9, app_assoc. reflexivity.
  - intros y Hy Ay.
    assert (Hy6 : In y (slots s6)) by (rewrite <- S67; subst s'; exact Hy).
    destruct (E6 y Hy6 Ay) as [(x & Hx & Ax & _)|[A _]]; [|lia].
    rewrite a1 in Hx. destruct (free_inactive x Hx). congruence.
Qed.

(* ---------- one event, whole runs ---------- *)
Definition ev_chan (c : cfg) (x : ev) : Z -> Prop :=
  match x with
  | ESet ch _ _ _ => fun k => k = u8 ch
  | ESw port _ => fun k => k = last_chan (c_relays c) port (-1)
  | ECrash => fun _ => True
  | EChCfg ch _ _ _ _ => fun k => k = ch
  | _ => fun _ => False
  end.
Definition is_crash (x : ev) : bool := match x with ECrash => true | _ => false end.

Lemma Good_cfgchange s s' :
  slots s' = slots s -> delay s' = delay s -> tcd s' = tcd s -> cnt0 s' = cnt0 s -> tb s' = tb s -> upc s' = upc s -> upl s' = upl s ->
  outs s' = outs s -> now s' = now s -> Good s -> Good s'.
Proof. intros. eapply Good_tick; eauto; try lia. split; congruence. Qed.

(* a channel config message either changes nothing or stores the new staircase time and sets the timer up anew *)
Lemma chcfg_cases e c ch func ctype csize ms s :
  channel_config e c ch func ctype csize ms s = s \/
  exists t, 0 <= ch < 8 /\
    channel_config e c ch func ctype csize ms s = set_duration_timer e c ch 1 0 0 (set_time2 (setz (time2 s) ch t) s).
Proof.
  unfold channel_config. destruct ((0 <? func) && (ctype =? 0) && (csize =? 0)); [left; reflexivity|].
  destruct ((func =? FNC_STAIRCASE) || (func =? FNC_POWERSWITCH) || (func =? FNC_LIGHTSWITCH)); [|left; reflexivity].
  destruct ((0 <=? ch) && (ch <? T2_COUNT)) eqn:E; [|left; reflexivity].
  apply andb_true_iff in E. destruct E as [E1 E2]. apply Z.leb_le in E1. apply Z.ltb_lt in E2.
  destruct (cf_t2 consts_ok) as [_ CT].
  set (t := if _ && _ && _ then u32 ms else 0). destruct (t =? getz (time2 s) ch); [left; reflexivity|].
  right. exists t. split; [lia|reflexivity].
Qed.
Lemma chcfg_frame e c ch func ctype csize ms s : frame s (channel_config e c ch func ctype csize ms s).
Proof.
  destruct (chcfg_cases e c ch func ctype csize ms s) as [->|(t & _ & ->)]; [apply frame_refl|].
  eapply frame_trans; [|apply sdt_frame]. constructor; cbn; try reflexivity; try lia. exists []; auto.
Qed.
Lemma chcfg_spec e c ch func ctype csize ms s s' :
  s' = channel_config e c ch func ctype csize ms s -> wf_cfg c -> Good s -> NWw s' ->
  Good s' /\ evo (fun k => k = ch) s s'.
Proof.
  intros Es' W G N. destruct (chcfg_cases e c ch func ctype csize ms s) as [E|(t & Hch & E)]; rewrite E in Es'.
  - subst s'. split; [auto|apply evo_refl].
  - set (s0 := set_time2 (setz (time2 s) ch t) s) in *.
    assert (G0 : Good s0) by (eapply Good_cfgchange; [..|exact G]; reflexivity).
    destruct (set_duration_timer_spec e c ch 1 0 0 s0 s' Es' W G0 Hch ltac:(lia) N) as (G1 & F1 & _ & E1 & _).
    split; [auto|]. intros y Hy Ay. destruct (E1 y Hy Ay) as [H|H]; [left; exact H|right; exact H].
Qed.

Lemma step_frame e c s x : is_crash x = false -> (forall dt, x = EAdv dt -> 0 <= dt) -> frame s (step e c s x).
Proof.
  intros NC Hdt. unfold step. eapply frame_trans; [|apply frame_emit].
  destruct x; try discriminate.
  - apply csv_frame.
  - apply rsw_frame.
  - apply advance_frame. apply Hdt; auto.
  - destruct (_ && _); [|apply frame_refl]. constructor; cbn; try reflexivity; try lia. exists []; auto.
  - constructor; cbn; try reflexivity; try lia. exists []; auto.
  - apply frame_emit.
  - apply chcfg_frame.
Qed.

Definition wf_ev (x : ev) : Prop := match x with EAdv dt => 0 <= dt | _ => True end.

Lemma step_spec e c s x s' :
  s' = step e c s x -> wf_cfg c -> wf_ev x -> Good s -> NWw s' ->
  Good s' /\ now s <= now s' /\ evo (ev_chan c x) s s' /\ (exists add, outs s' = add ++ outs s) /\
  (is_crash x = false -> cnt0 s' = cnt0 s /\ tb s' = tb s).
Proof.
  intros Es' W Wx G N. unfold step in Es'.
  set (s1 := match x with ESet _ _ _ _ => _ | _ => _ end) in *.
  assert (P : passive s1 s') by (subst s'; apply passive_emit; exact Logic.I).
  assert (N1 : NWw s1) by (eapply NW_passive; eauto).
  assert (OPpos : 0 <= OP) by (destruct consts_ok; unfold OP; lia).
  assert (K : Good s1 /\ now s <= now s1 /\ evo (ev_chan c x) s s1 /\ (exists add, outs s1 = add ++ outs s) /\
              (is_crash x = false -> cnt0 s1 = cnt0 s /\ tb s1 = tb s)).
  { destruct x; unfold s1 in *; cbn [ev_chan is_crash].
    - destruct (channel_set_value_spec e c (u8 ch) v dur sender s _ eq_refl W G N1) as (G1 & F1 & _ & E1 & _).
      split; [auto|]. split; [apply F1|]. split; [auto|]. split; [apply F1|]. intros _. split; apply F1.
    - destruct (relay_switch_spec e c port hi s _ eq_refl W G N1) as (G1 & F1 & _ & E1 & _).
      split; [auto|]. split; [apply F1|]. split; [auto|]. split; [apply F1|]. intros _. split; apply F1.
    - destruct (advance_spec e c dt s _ eq_refl W G N1) as (G1 & E1 & Nw).
      pose proof (advance_frame e c dt s Wx) as F1.
      split; [auto|]. split; [apply F1|]. split; [auto|]. split; [apply F1|]. intros _. split; apply F1.
    - unfold crash in *.
      remember (set_upc 0 (set_tb (now s) (set_cnt0 (c_boot2 c) (emit (OReboot (now s)) s)))) as s0 eqn:Es0.
      assert (TO : TrO s0).
      { pose proof (Tr_TrO _ (g_tr _ G)) as []. subst s0. constructor; cbn [outs set_upc set_tb set_cnt0 emit set_outs now].
        - intros * [E|H]; [discriminate|]. destruct (to_fin0 _ _ _ _ _ _ _ H) as (A & B & C & D). repeat split; auto. right; auto.
        - cbn [fins]. auto. }
      destruct (boot_spec e c s0 _ eq_refl W TO) as (G1 & A1 & A2 & A3 & (add & A4) & A5).
      + subst s0. cbn. apply (wf_boot2 _ W).
      + subst s0. cbn. lia.
      + subst s0. cbn. lia.
      + subst s0. cbn. pose proof (wf_boot2 _ W). lia.
      + auto.
      + assert (N0 : now s0 = now s) by (subst s0; reflexivity).
        assert (O0 : outs s0 = OReboot (now s) :: outs s) by (subst s0; reflexivity).
        split; [auto|]. split; [lia|]. split.
        * intros y Hy Ay. right. split; auto. specialize (A5 y Hy Ay). lia.
        * split; [|intros; discriminate]. exists (add ++ [OReboot (now s)]). rewrite A4, O0. rewrite <- app_assoc. reflexivity.
    - split; [|split; [destruct (_ && _); cbn; lia|split; [|split; [exists []; destruct (_ && _); reflexivity|intros _; destruct (_ && _); split; reflexivity]]]].
      + destruct (_ && _); auto. eapply Good_cfgchange; [..|exact G]; reflexivity.
      + destruct (_ && _); [apply evo_same_slots; reflexivity|apply evo_refl].
    - split; [eapply Good_cfgchange; [..|exact G]; reflexivity|]. split; [cbn; lia|]. split; [apply evo_same_slots; reflexivity|].
      split; [exists []; reflexivity|intros _; split; reflexivity].
    - assert (P1 : passive s (emit OUnknown s)) by (apply passive_emit; exact Logic.I).
      split; [eapply Good_passive; eauto|]. split; [apply P1|]. split; [apply evo_passive; auto|].
      split; [eexists [_]; reflexivity|intros _; split; reflexivity].
    - destruct (chcfg_spec e c ch func ctype csize ms s _ eq_refl W G N1) as (G1 & E1).
      pose proof (chcfg_frame e c ch func ctype csize ms s) as F1.
      split; [auto|]. split; [apply F1|]. split; [auto|]. split; [apply F1|]. intros _. split; apply F1. }
  destruct K as (G1 & Nw & E1 & (add & O1) & C1).
  split; [eapply Good_passive; eauto|]. split; [destruct P; lia|]. split.
  - apply (evo_trans _ s s1 s'); auto. apply evo_passive; auto.
  - split.
    + destruct (pa_outs _ _ P) as (a2 & O2 & _). exists (a2 ++ add). rewrite O2, O1, app_assoc. reflexivity.
    + intros NC. destruct (C1 NC). rewrite (pa_cnt0 _ _ P), (pa_tb _ _ P). auto.
Qed.

Definition NWwrun (e : bool) (c : cfg) (s : st) (evs : list ev) : Prop := forall k, NWw (run_from e c s (firstn k evs)).
Lemma NWwrun_cons e c s x evs : NWwrun e c s (x :: evs) -> NWw (step e c s x) /\ NWwrun e c (step e c s x) evs.
Proof. intros H. split. - apply (H 1%nat). - intros k. apply (H (S k)). Qed.
Lemma NWwrun_nil e c s : NWwrun e c s [] -> NWw s.
Proof. intros H. apply (H 0%nat). Qed.

Lemma run_good e c : forall evs s, wf_cfg c -> Forall wf_ev evs -> Good s -> NWwrun e c s evs -> Good (run_from e c s evs).
Proof.
  induction evs as [|x evs IH]; intros s W Wx G N; cbn; auto.
  apply NWwrun_cons in N. destruct N as [N1 N2]. inversion Wx; subst.
  destruct (step_spec e c s x _ eq_refl W H1 G N1) as (G1 & _). apply IH; auto.
Qed.
Lemma start_good e c : wf_cfg c -> NWw (start e c) -> Good (start e c).
Proof.
  intros W N. unfold start in *. set (s := boot e c (init c)) in *.
  assert (P : passive s (emit (st_line c s) s)) by (apply passive_emit; exact Logic.I).
  assert (N1 : NWw s) by (eapply NW_passive; eauto).
  assert (TO : TrO (init c)) by (constructor; cbn; [intros; contradiction|constructor]).
  assert (C0 : 0 <= cnt0 (init c)) by (cbn; apply (wf_boot _ W)).
  assert (Ct : tb (init c) <= now (init c)) by (cbn; lia).
  assert (Cu : 0 <= upc (init c)) by (cbn; apply Z.div_pos; [apply (wf_boot _ W)|lia]).
  assert (CL : upc (init c) * 4294967296 <= cnt0 (init c) + (now (init c) - tb (init c))).
  { cbn [upc cnt0 now tb init]. pose proof (Z.mul_div_le (c_boot c) 4294967296 ltac:(lia)). lia. }
  destruct (boot_spec e c (init c) s eq_refl W TO C0 Ct Cu CL N1) as (G & _).
  eapply Good_passive; eauto.
Qed.

(* ---------- the theorems about whole histories ---------- *)
Section Histories.
Variable e : bool.
Variable c : cfg.
Hypothesis W : wf_cfg c.
Variable evs : list ev.
Hypothesis Wev : Forall wf_ev evs.
(* H_nowrap: the 32-bit microsecond counter does not wrap inside the history (after every prefix) *)
Hypothesis H_nowrap : NWwrun e c (start e c) evs.
Let final := run_from e c (start e c) evs.

Lemma final_good : Good final.
Proof. apply run_good; auto. apply start_good; auto. exact (H_nowrap 0%nat). Qed.

(* C07_armed_period_bound *)
Theorem armed_period_bound_w :
  forall x, In x (slots final) -> active x = true ->
    t_on (tcd final) = true /\ CD_MIN <= delay final <= clampd (s_left x) /\ t_per (tcd final) = delay final * 1000.
Proof. exact (g_t1 _ final_good). Qed.

(* C07_never_early / at most once *)
Theorem never_early_w :
  forall tcb ch tg t0 dur u0 u, In (GFinish tcb ch tg t0 dur u0 u) (run e c evs) ->
    (dur - 1) * 1000 < tcb - t0 /\ In (GArm t0 ch dur tg) (run e c evs).
Proof.
  intros * H. unfold run in *. apply in_rev in H. fold final in H.
  destruct (tr_fin _ (g_tr _ final_good) _ _ _ _ _ _ _ H) as (A & B & C & D & _). split; auto. apply -> in_rev. exact D.
Qed.
Theorem at_most_once_w : NoDup (fins (outs final)).
Proof. exact (tr_uniq _ (g_tr _ final_good)). Qed.
End Histories.

(* ---------- machine-checked witnesses (computed on the model, replayed on the real code by the harness) ---------- *)
Definition mkcfg (rs : list relay) (lf : bool) : cfg :=
  {| c_boot := 1; c_boot2 := 1; c_sbt := 0; c_lateflags := lf; c_relays := rs; c_time2 := []; c_late := [] |}.
Definition rl (g ch f cf : Z) : relay := {| r_gpio := g; r_chan := ch; r_flags := f; r_chfl := cf |}.
(* lateness (us) of every switch-back of channel ch: evaluation time - (arming time + duration) *)
Definition fin_late (l : list out) (ch : Z) : list Z :=
  flat_map (fun o => match o with GFinish tcb ch' _ t0 dur _ _ => if ch' =? ch then [tcb - t0 - dur * 1000] else [] | _ => [] end) l.
Definition gpio_edges (l : list out) (p : Z) : list (Z * Z) :=
  flat_map (fun o => match o with OGpio t p' lv => if p' =? p then [(t, lv)] else [] | _ => [] end) l.

(* 1. unchanged code (evalcmd = false): commands on another channel that keep changing the shared period re-arm the
      timer again and again; "on for 1000 ms" on channel 0 is evaluated 1.5 s late although no callback is late.
      With the repair (evalcmd = true) the same history switches back 0.5 ms after the second. *)
Definition storm_cfg := mkcfg [rl 4 0 0 0; rl 5 1 0 0] false.
Definition storm_evs : list ev :=
  ESet 0 1 1000 1 :: flat_map (fun k => [EAdv 30000; ESet 1 1 (if Nat.even k then 400 else 20000) 2]) (seq 0 60) ++ [EAdv 3000000].
Lemma old_code_refuted_thm :
  fin_late (run false storm_cfg storm_evs) 0 = [1501200] /\ fin_late (run true storm_cfg storm_evs) 0 = [500].
Proof. vm_compute. split; reflexivity. Qed.

(* 2. eight timers expiring in the same callback: every finish callback busy-waits RELAY_DOUBLE_TRY, the last relay
      (command at 70.14 ms, 231 ms) switches back at 420.15 ms = 119 ms late, with or without the repair *)
Definition serial_cfg := mkcfg [rl 1 0 0 0; rl 2 1 0 0; rl 3 2 0 0; rl 4 3 0 0; rl 5 4 0 0; rl 12 5 0 0; rl 13 6 0 0; rl 14 7 0 0] false.
Definition serial_evs : list ev :=
  [ESet 0 1 301 1; ESet 1 1 291 1; ESet 2 1 281 1; ESet 3 1 271 1; ESet 4 1 261 1; ESet 5 1 251 1; ESet 6 1 241 1; ESet 7 1 231 1; EAdv 3000000].
Lemma busy_wait_late_refuted_thm :
  gpio_edges (run false serial_cfg serial_evs) 14 = [(70150, 1); (420150, 0)] /\
  gpio_edges (run true serial_cfg serial_evs) 14 = [(70150, 1); (420150, 0)].
Proof. vm_compute. split; reflexivity. Qed.

(* 3. the millisecond clock is truncated: "on for 40 ms" commanded at 10.998 ms is switched back at 50.010 ms *)
Definition early_evs : list ev := [ESet 0 1 400 7; EAdv 978; ESet 1 1 40 7; EAdv 100000].
Lemma submillisecond_early_witness_thm :
  gpio_edges (run false storm_cfg early_evs) 5 = [(11008, 1); (50010, 0)] /\ fin_late (run false storm_cfg early_evs) 1 = [-998].
Proof. vm_compute. split; reflexivity. Qed.

(* 4. "off for 5 s" on a countdown-capable channel, restart after 2 s: when the board fills channel_flags only at
      registration (lateflags) the timer is not restored and the relay stays off; when the flags are known in
      gpio_init it comes back on 4.05 s (the saved remaining time) after the restart *)
Definition late_cfg (lf : bool) := mkcfg [rl 4 0 2 16777216] lf.
Definition late_evs : list ev := [EFlags; ESet 0 1 0 1; EAdv 2000000; ESet 0 0 5000 1; EAdv 2000000; ECrash; EFlags; EAdv 6000000].
Lemma restore_needs_flags_refuted_thm :
  gpio_edges (run false (late_cfg true) late_evs) 4 = [(10030, 1); (2020050, 0)] /\
  gpio_edges (run false (late_cfg false) late_evs) 4 = [(10030, 1); (2020050, 0); (8084070, 1)].
Proof. vm_compute. split; reflexivity. Qed.

(* ================================================================================================
   Second pass: where switch-backs come from (finsrc), and the timing side (J): the shared timer is
   never due later than one period after "now" (j_due); with the repaired countdown() every running slot
   was evaluated at most 8 relay operations before the timer was (re)armed (j_q), and every switch-back
   was on time provided the evaluations started within S of the timer's due time (j_ot under Slack S).
   ================================================================================================ *)
Definition BQ : Z := 8 * OP.
Definition srcfin (s : st) (add : list out) : Prop :=
  forall tcb ch tg t0 dur u0 u, In (GFinish tcb ch tg t0 dur u0 u) add ->
    (exists x, In x (slots s) /\ active x = true /\ s_chan x = ch /\ g_t0 x = t0) \/ now s <= t0.
Definition finsrc (s s' : st) : Prop := exists add, outs s' = add ++ outs s /\ srcfin s add.
Lemma finsrc_refl s : finsrc s s.
Proof. exists []. split; auto. intros tcb ch tg t0 dur u0 u H. contradiction. Qed.
Lemma finsrc_noghost s s' add : outs s' = add ++ outs s -> Forall noghost add -> finsrc s s'.
Proof.
  intros E F. exists add. split; auto. intros tcb ch tg t0 dur u0 u H. rewrite Forall_forall in F. apply F in H. contradiction.
Qed.
Lemma finsrc_passive s s' : passive s s' -> finsrc s s'.
Proof. intros []. destruct pa_outs0 as (add & E & F). eapply finsrc_noghost; eauto. Qed.
Lemma finsrc_trans P s s1 s2 : now s <= now s1 -> evo P s s1 -> finsrc s s1 -> finsrc s1 s2 -> finsrc s s2.
Proof.
  intros Hn E (a1 & O1 & S1) (a2 & O2 & S2). exists (a2 ++ a1). split; [rewrite O2, O1, app_assoc; reflexivity|].
  intros tcb ch tg t0 dur u0 u H. apply in_app_or in H. destruct H as [H|H]; [|eapply S1; eauto].
  destruct (S2 _ _ _ _ _ _ _ H) as [(x & Hx & Ax & Ec & Et)|Hl]; [|right; lia].
  destruct (E x Hx Ax) as [(x0 & Hx0 & Ax0 & (I1 & I2 & _) & _)|[A _]].
  - left. exists x0. repeat split; auto; congruence.
  - right. lia.
Qed.

Definition Slack (S : Z) (l : list out) : Prop := forall due t, In (GEvalStart due t) l -> t <= due + S.
Lemma Slack_app S a l : Slack S (a ++ l) -> Slack S l.
Proof. intros H due t Hin. apply H. apply in_or_app; auto. Qed.
Lemma Slack_frame S s s' : frame s s' -> Slack S (outs s') -> Slack S (outs s).
Proof. intros [] H. destruct fr_outs0 as (a & E). rewrite E in H. eapply Slack_app; eauto. Qed.

Definition OTB (S : Z) : Z := CD_MIN * 1000 + S + 2 * BQ + WB.
Record J (e : bool) (S : Z) (s : st) : Prop := {
  j_due : t_on (tcd s) = true -> t_due (tcd s) <= now s + t_per (tcd s);
  j_q : e = true -> forall x, In x (slots s) -> active x = true -> t_due (tcd s) <= g_tl x + BQ + t_per (tcd s);
  j_ot : e = true -> forall tcb ch tg t0 dur u0 u, In (GFinish tcb ch tg t0 dur u0 u) (outs s) ->
            tcb < t0 + dur * 1000 + OTB S
}.

(* steps that keep the shared timer: only the clock may move, slots may disappear or be (re)armed "now" *)
Lemma J_keep e S P s s' :
  tcd s' = tcd s -> now s <= now s' -> evo P s s' -> Inv s' -> T1 s' ->
  (exists add, outs s' = add ++ outs s /\ Forall noghost add) ->
  J e S s -> J e S s'.
Proof.
  intros Et Hn E I' TT' (add & Eo & Fa) [Jd Jq Jo].
  assert (BQpos : 0 <= BQ) by (destruct consts_ok; unfold BQ, OP; lia).
  constructor.
  - rewrite Et. intros H. specialize (Jd H). lia.
  - intros He y Hy Ay. rewrite Et. destruct (E y Hy Ay) as [(x & Hx & Ax & _ & _ & G)|[A _]].
    + specialize (Jq He x Hx Ax). lia.
    + destruct (TT' y Hy Ay) as (On & _). rewrite Et in On. specialize (Jd On).
      destruct (i_ok _ I' y Hy Ay) as [_ _ _ _ _ _ (T1' & T2' & T3')]. lia.
  - intros He tcb ch tg t0 dur u0 u H. rewrite Eo in H. apply in_ghost_app in H; auto. eapply Jo; eauto.
Qed.
Lemma J_passive e S s s' : passive s s' -> Good s -> J e S s -> J e S s'.
Proof.
  intros P G Jj. pose proof (Good_passive _ _ P G) as G'.
  apply (J_keep e S (fun _ => False) s s'); auto.
  - apply P. - apply P. - apply evo_passive; auto. - apply G'. - apply G'. - apply P.
Qed.

(* the arithmetic of the adaptive period: a slot with L ms left, evaluated again within period + slack *)
Lemma period_arith dur L : 1 <= L -> (dur - L + 1) * 1000 + clampd L * 1000 <= dur * 1000 + CD_MIN * 1000.
Proof.
  intros HL. destruct consts_ok. destruct (Z_lt_ge_dec L (CD_MIN * CD_DIV)) as [Hs|Hb].
  - rewrite clampd_small by auto. nia.
  - pose proof (clampd_large L ltac:(lia)). pose proof (clampd_range L). nia.
Qed.

Lemma cd_cb_J e S c due s s' :
  s' = cd_cb c due s -> Inv s -> Tr s -> NWw s' -> Slack S (outs s') -> 0 <= S ->
  (t_on (tcd s) = true -> t_due (tcd s) <= now s + t_per (tcd s)) ->
  (e = true -> forall x, In x (slots s) -> active x = true ->
       g_tl x = now s \/ due <= g_tl x + BQ + clampd (s_left x) * 1000) ->
  (e = true -> forall tcb ch tg t0 dur u0 u, In (GFinish tcb ch tg t0 dur u0 u) (outs s) -> tcb < t0 + dur * 1000 + OTB S) ->
  J e S s' /\ finsrc s s'.
Proof.
  intros Es' I T N SL HS Due HQ OT.
  destruct (cd_cb_spec c due s s' Es' I T N) as (G' & F' & Nw & EV & (add & O1 & O2 & O3) & TD).
  assert (BQpos : 0 <= BQ) by (destruct consts_ok; unfold BQ, OP; lia).
  fold BQ in Nw. pose proof (fr_now _ _ F') as Hn.
  assert (Fin : forall tcb ch tg t0 dur u0 u, In (GFinish tcb ch tg t0 dur u0 u) add ->
            exists i, (i < 8)%nat /\ active (slot_at s i) = true /\ now s <= tcb <= now s' /\
                      ch = s_chan (slot_at s i) /\ t0 = g_t0 (slot_at s i) /\ dur = g_dur (slot_at s i)).
  { intros tcb ch tg t0 dur u0 u H. rewrite Forall_forall in O2.
    destruct (O2 _ H eq_refl) as [E|[(t & E & _)|(i & tl & P1 & P2 & P3 & P4 & _)]]; try discriminate.
    unfold finish_of in P3. injection P3 as -> -> -> -> -> -> ->. exists i. repeat split; auto; lia. }
  split; [constructor|].
  - destruct TD as [[Et Ed]|[Ea|Eoff]]; intros On.
    + rewrite Et in *. specialize (Due On). lia.
    + lia.
    + congruence.
  - intros He y Hy Ay. destruct (in_slot_at s' y Hy) as (i & Hi & <-). rewrite (i_len _ (g_inv _ G')) in Hi.
    destruct (g_t1 _ G' _ Hy Ay) as (On & _).
    destruct (EV i Hi) as [[A B]|(A & tl & R & [[D1 D2]|[D1 D2]])].
    + rewrite B in Ay. congruence.
    + rewrite D2. cbn [g_tl slot_run].
      destruct TD as [[Et Ed]|[Ea|Eoff]].
      * rewrite Et in *. specialize (Due On). lia.
      * lia.
      * congruence.
    + rewrite D2 in Ay. discriminate.
  - intros He tcb ch tg t0 dur u0 u H. rewrite O1 in H. apply in_app_or in H. destruct H as [H|H]; [|eapply OT; eauto].
    destruct (Fin _ _ _ _ _ _ _ H) as (i & Hi & Ai & Rt & -> & -> & ->).
    set (x := slot_at s i) in *.
    assert (Hx : In x (slots s)) by (apply slot_at_in; rewrite (i_len _ I); auto).
    destruct (i_ok _ I x Hx Ai) as [Sch Sleft Sdur Sacct Slast Su0 (T1' & T2' & T3')].
    assert (Gap : g_tl x - g_t0 x < (g_dur x - s_left x + 1) * 1000 + WB).
    { destruct (i_clk _ I) as (_ & _ & _ & Cc & _). destruct N as [Nb _]. destruct F' as [Fc Ft Fn _].
      apply rd_diff_hi with (s := s); [lia|lia|rewrite Fc, Ft in Nb; lia|]. rewrite <- Slast, <- Su0. lia. }
    assert (Hst : now s <= due + S).
    { apply SL. rewrite O1. apply in_or_app. left. exact O3. }
    pose proof (period_arith (g_dur x) (s_left x) ltac:(lia)) as PA.
    pose proof (clampd_range (s_left x)) as CR. destruct consts_ok.
    unfold OTB. destruct (HQ He x Hx Ai) as [Eq|Hq]; nia.
  - exists add. split; auto. intros tcb ch tg t0 dur u0 u H.
    destruct (Fin _ _ _ _ _ _ _ H) as (i & Hi & Ai & Rt & -> & -> & ->).
    left. exists (slot_at s i). repeat split; auto. apply slot_at_in. rewrite (i_len _ I). auto.
Qed.

Lemma finsrc_notfin s s' add : outs s' = add ++ outs s -> (forall o, In o add -> notfin o) -> finsrc s s'.
Proof. intros E F. exists add. split; auto. intros tcb ch tg t0 dur u0 u H. apply F in H. contradiction. Qed.

Lemma arm_slot_J e S c ms gpio ch target sender s s' :
  s' = countdown_arm_slot c ms gpio ch target sender s ->
  Good s -> J e S s -> (e = true -> forall y, In y (slots s) -> active y = true -> now s <= g_tl y + BQ) ->
  0 < ms < 4294967296 -> 0 <= ch < 255 -> (forall x, In x (slots s) -> s_chan x <> ch) -> NWw s' ->
  J e S s' /\ finsrc s s'.
Proof.
  intros Es' [I T TT] [Jd Jq Jo] Fr Hms Hch NoCh N.
  destruct (countdown_arm c ms gpio ch target sender s s' Es' I T Hms Hch NoCh N)
    as [[-> _]|(s3 & E' & I3 & T3 & F03 & Now3 & Tc3 & Dl3 & E03 & Sl3 & (add & O3 & NF3 & _))].
  { split; [constructor; auto|apply finsrc_refl]. }
  assert (FS03 : finsrc s s3) by (eapply finsrc_notfin; eauto).
  assert (BQpos : 0 <= BQ) by (destruct consts_ok; unfold BQ, OP; lia).
  pose proof (startstop_spec s3 (i_tmr _ I3)) as SS. cbv zeta in SS. rewrite <- E' in SS.
  destruct SS as (E1 & E2 & E3 & E4 & E5 & E6 & E7 & E8 & E9 & E10 & TM & TT' & TD).
  split; [constructor|].
  - intros On. destruct TD as [[Et Ed]|[Ea|Eoff]].
    + rewrite Et in *. rewrite Tc3 in *. specialize (Jd On). lia.
    + lia.
    + congruence.
  - intros He y Hy Ay. rewrite E1 in Hy. destruct (TT' y ltac:(rewrite E1; exact Hy) Ay) as (On & _).
    destruct TD as [[Et Ed]|[Ea|Eoff]]; [| |congruence].
    + rewrite Et, Tc3 in *. destruct (Sl3 y Hy Ay) as [Hin|(A & _)].
      * apply (Jq He y Hin Ay).
      * specialize (Jd On). lia.
    + rewrite Ea, Now3. destruct (Sl3 y Hy Ay) as [Hin|(A & _)]; [specialize (Fr He y Hin Ay); lia|lia].
  - intros He tcb ch0 tg t0 dur u0 u H. rewrite E7, O3 in H. apply in_app_or in H.
    destruct H as [H|H]; [apply NF3 in H; contradiction|]. eapply Jo; eauto.
  - apply (finsrc_trans (fun k => k = ch) s s3 s'); auto; [lia|]. exists []. split; auto. intros tcb ch0 tg t0 dur u0 u H. contradiction.
Qed.
Lemma countdown_J e S c ms gpio ch target sender s s' :
  s' = countdown e c ms gpio ch target sender s ->
  Good s -> J e S s -> 0 < ms < 4294967296 -> 0 <= ch < 255 -> (forall x, In x (slots s) -> s_chan x <> ch) ->
  NWw s' -> Slack S (outs s') -> 0 <= S ->
  J e S s' /\ finsrc s s'.
Proof.
  intros Es' G Jj Hms Hch NoCh N SL HS. unfold countdown in Es'.
  destruct e.
  - remember (cd_cb c (if t_on (tcd s) then t_due (tcd s) else now s) s) as s0 eqn:Es0.
    assert (F0' : frame s0 s') by (rewrite Es'; apply arm_slot_frame).
    assert (N0 : NWw s0) by (eapply NW_frame; eauto).
    assert (SL0 : Slack S (outs s0)) by (eapply Slack_frame; eauto).
    destruct (cd_cb_spec c _ s s0 Es0 (g_inv _ G) (g_tr _ G) N0) as (G0 & F0 & Nw0 & EV & _ & _).
    pose proof (evald_nochan s s0 ch Hch (g_inv _ G) (i_len _ (g_inv _ G0)) EV NoCh) as NoCh0.
    destruct (cd_cb_J true S c _ s s0 Es0 (g_inv _ G) (g_tr _ G) N0 SL0 HS) as (J0 & FS0).
    + apply (j_due _ _ _ Jj).
    + intros _ x Hx Ax. right. destruct (g_t1 _ G x Hx Ax) as (On & (_ & Hc) & Hp). rewrite On.
      pose proof (j_q _ _ _ Jj eq_refl x Hx Ax). nia.
    + apply (j_ot _ _ _ Jj).
    + assert (Fr : true = true -> forall y, In y (slots s0) -> active y = true -> now s0 <= g_tl y + BQ).
      { intros _ y Hy Ay. destruct (in_slot_at s0 y Hy) as (i & Hi & <-). rewrite (i_len _ (g_inv _ G0)) in Hi.
        fold BQ in Nw0. destruct (EV i Hi) as [[A B]|(A & tl & R & [[D1 D2]|[D1 D2]])].
        - rewrite B in Ay. congruence.
        - rewrite D2. cbn [g_tl slot_run]. lia.
        - rewrite D2 in Ay. discriminate. }
      destruct (arm_slot_J true S c ms gpio ch target sender s0 s' Es' G0 J0 Fr Hms Hch NoCh0 N) as (J' & FS').
      split; auto. apply (finsrc_trans (fun _ => False) s s0 s'); auto. * apply F0.
      * apply evald_evo; auto. apply (g_inv _ G). apply (i_len _ (g_inv _ G0)).
  - apply (arm_slot_J false S c ms gpio ch target sender s s' Es' G Jj); auto. intros; discriminate.
Qed.

Lemma JF_passive e S s s' : passive s s' -> Good s -> J e S s -> J e S s' /\ finsrc s s'.
Proof. intros P G Jj. split; [eapply J_passive; eauto|apply finsrc_passive; auto]. Qed.

Lemma disarm_J e S c ch s :
  0 <= ch < 255 -> Good s -> J e S s -> J e S (disarm c ch s) /\ finsrc s (disarm c ch s).
Proof.
  intros Hch G Jj. destruct (disarm_spec c ch s Hch G) as (G' & F & D & C & Nn & _ & E & (add & O & NG)).
  split; [|eapply finsrc_noghost; eauto].
  apply (J_keep e S (fun _ => False) s _); auto; try lia; try apply G'. exists add; auto.
Qed.

Lemma JF_trans e S P s s1 s2 :
  now s <= now s1 -> evo P s s1 -> J e S s1 /\ finsrc s s1 -> (J e S s1 -> J e S s2 /\ finsrc s1 s2) -> J e S s2 /\ finsrc s s2.
Proof.
  intros Hn E [J1 F1] H. destruct (H J1) as [J2 F2]. split; auto. eapply finsrc_trans; eauto.
Qed.

Lemma sdt_J e S c ch newv dur sender s s' :
  s' = set_duration_timer e c ch newv dur sender s ->
  wf_cfg c -> Good s -> J e S s -> 0 <= ch < 8 -> dur < 4294967296 -> NWw s' -> Slack S (outs s') -> 0 <= S ->
  J e S s' /\ finsrc s s'.
Proof.
  intros Es' W G Jj Hch Hdur N SL HS. unfold set_duration_timer in Es'.
  set (stair := (ch <? ST_T2_COUNT) && (ch <? T2_COUNT) && (0 <? getz (time2 s) ch)) in *.
  remember (if stair && (newv =? 0) then set_ram_t2 (setz (ram_t2 s) ch 0) s else s) as s0 eqn:Es0.
  set (dur1 := if stair then _ else dur) in *.
  assert (P0 : passive s s0) by (subst s0; destruct (stair && (newv =? 0)); [apply passive_set_ram_t2|apply passive_refl]).
  assert (Hd1 : dur1 < 4294967296).
  { unfold dur1. destruct stair; auto. destruct (newv =? 0); [lia|]. destruct (_ || _); auto.
    pose proof (s32_range (getz (time2 s) ch)). lia. }
  rewrite u8_small in Es' by lia.
  pose proof (Good_passive _ _ P0 G) as G0.
  destruct (JF_passive e S _ _ P0 G Jj) as [J0 FS0].
  destruct (disarm_spec c ch s0 ltac:(lia) G0) as (G1 & F1 & D1 & C1 & N1 & NoCh & E1 & _).
  destruct (disarm_J e S c ch s0 ltac:(lia) G0 J0) as [J1 FS1].
  remember (disarm c ch s0) as s1 eqn:Es1. clear Es1.
  assert (FS01 : finsrc s s1) by (apply (finsrc_trans (fun _ => False) s s0 s1); auto; [apply P0|apply evo_passive; auto]).
  assert (E01 : evo (fun k => k = ch) s s1).
  { apply (evo_trans _ s s0 s1); [apply P0|apply evo_passive; auto|]. eapply evo_weaken; [|exact E1]. intros; contradiction. }
  assert (Hn01 : now s <= now s1) by (destruct P0; lia).
  destruct (0 <? dur1) eqn:Ed; [|subst s'; auto].
  apply Z.ltb_lt in Ed.
  destruct (find_chan (c_relays c) 0 ch) as [[a r]|] eqn:EFC; [|subst s'; auto].
  set (f := getz (chfl s1) a) in *.
  remember (if (newv =? 1) || hasf f CHFLAG_COUNTDOWN
            then countdown e c (u32 dur1) (r_gpio r) ch (if newv =? 0 then 1 else 0) sender s1 else s1) as s2 eqn:Es2.
  assert (P23 : passive s2 s') by (subst s'; destruct (hasf f _); [apply passive_ext_changed|apply passive_refl]).
  assert (N2 : NWw s2) by (eapply NW_passive; eauto).
  assert (SL2 : Slack S (outs s2)) by (eapply Slack_frame; [apply frame_passive; exact P23|auto]).
  assert (H2 : Good s2 /\ now s1 <= now s2 /\ evo (fun k => k = ch) s1 s2 /\ J e S s2 /\ finsrc s1 s2).
  { destruct ((newv =? 1) || hasf f CHFLAG_COUNTDOWN).
    - rewrite u32_small in Es2 by lia.
      destruct (countdown_spec e c dur1 (r_gpio r) ch _ sender s1 s2 Es2 G1 ltac:(lia) ltac:(lia) NoCh N2) as (G2 & F2 & _ & E2).
      destruct (countdown_J e S c dur1 (r_gpio r) ch _ sender s1 s2 Es2 G1 J1 ltac:(lia) ltac:(lia) NoCh N2 SL2 HS) as (J2 & FS2).
      split; [auto|]. split; [apply F2|]. auto.
    - subst s2. split; [auto|]. split; [lia|]. split; [apply evo_refl|]. split; [auto|apply finsrc_refl]. }
  destruct H2 as (G2 & Hn12 & E12 & J2 & FS12).
  destruct (JF_passive e S _ _ P23 G2 J2) as [J' FS2'].
  split; auto.
  apply (finsrc_trans (fun k => k = ch) s s1 s'); auto.
  apply (finsrc_trans (fun k => k = ch) s1 s2 s'); auto.
Qed.

Lemma csv_J e S c ch v dur sender s s' :
  s' = channel_set_value e c ch v dur sender s ->
  wf_cfg c -> Good s -> J e S s -> NWw s' -> Slack S (outs s') -> 0 <= S ->
  J e S s' /\ finsrc s s'.
Proof.
  intros Es' W G Jj N SL HS. unfold channel_set_value in Es'.
  destruct (find_chan (c_relays c) 0 ch) as [[a r]|] eqn:EFC.
  2:{ assert (P : passive s s') by (subst s'; apply passive_set_result). apply JF_passive; auto. }
  destruct (find_chan_some _ _ _ _ _ EFC) as [Hr Er]. pose proof (wf_chan _ W r Hr) as Hc. rewrite Er in *.
  remember (set_duration_timer e c ch v (s32 dur) sender s) as s1 eqn:Es1.
  pose proof (passive_chan_set_value c (r_gpio r) v ch s1) as P12.
  destruct (chan_set_value c (r_gpio r) v ch s1) as [s2 ok]. cbn [fst] in *.
  assert (P2' : passive s2 s') by (subst s'; apply passive_set_result).
  pose proof (passive_trans _ _ _ P12 P2') as P1'.
  assert (N1 : NWw s1) by (eapply NW_passive; eauto).
  assert (SL1 : Slack S (outs s1)) by (eapply Slack_frame; [apply frame_passive; exact P1'|auto]).
  pose proof (s32_range dur).
  destruct (set_duration_timer_spec e c ch v (s32 dur) sender s s1 Es1 W G Hc ltac:(lia) N1) as (G1 & F1 & _ & E1 & _).
  destruct (sdt_J e S c ch v (s32 dur) sender s s1 Es1 W G Jj Hc ltac:(lia) N1 SL1 HS) as (J1 & FS1).
  destruct (JF_passive e S _ _ P1' G1 J1) as [J' FS'].
  split; auto. apply (finsrc_trans (fun k => k = ch) s s1 s'); auto. apply F1.
Qed.

Lemma rsw_J e S c port hi s s' :
  s' = relay_switch e c port hi s ->
  wf_cfg c -> Good s -> J e S s -> NWw s' -> Slack S (outs s') -> 0 <= S ->
  J e S s' /\ finsrc s s'.
Proof.
  intros Es' W G Jj N SL HS. unfold relay_switch in Es'. set (ch := last_chan (c_relays c) port (-1)) in *.
  destruct (ch <? 0) eqn:Ec; [subst s'; split; [auto|apply finsrc_refl]|].
  apply Z.ltb_ge in Ec.
  destruct (last_chan_spec (c_relays c) port (-1) (or_intror Logic.I)) as [E|(r & Hr & Er & _)]; [fold ch in E; lia|].
  fold ch in Er. pose proof (wf_chan _ W r Hr) as Hc. rewrite Er in Hc.
  destruct consts_ok. destruct cf_t3 as [CT1 CT2].
  set (hi1 := if _ && _ && _ && _ then HI else hi) in *.
  set (hi2 := if hi1 =? 255 then _ else hi1) in *.
  assert (Lt : (ch <? ST_T2_COUNT) = true) by (apply Z.ltb_lt; lia). rewrite Lt in Es'.
  remember (set_ram_t2 (setz (ram_t2 s) ch 0) s) as s0 eqn:Es0.
  assert (P0 : passive s s0) by (subst s0; apply passive_set_ram_t2).
  remember (set_duration_timer e c ch hi2 0 0 s0) as s1 eqn:Es1.
  remember (relay_hi c port hi2 s1) as s2 eqn:Es2.
  assert (P12 : passive s1 s2) by (subst s2; apply passive_relay_hi).
  assert (P2' : passive s2 s') by (subst s'; apply passive_value_changed).
  pose proof (passive_trans _ _ _ P12 P2') as P1'.
  assert (N1 : NWw s1) by (eapply NW_passive; eauto).
  assert (SL1 : Slack S (outs s1)) by (eapply Slack_frame; [apply frame_passive; exact P1'|auto]).
  pose proof (Good_passive _ _ P0 G) as G0.
  destruct (JF_passive e S _ _ P0 G Jj) as [J0 FS0].
  destruct (set_duration_timer_spec e c ch hi2 0 0 s0 s1 Es1 W G0 Hc ltac:(lia) N1) as (G1 & F1 & _ & E1 & _).
  destruct (sdt_J e S c ch hi2 0 0 s0 s1 Es1 W G0 J0 Hc ltac:(lia) N1 SL1 HS) as (J1 & FS1).
  destruct (JF_passive e S _ _ P1' G1 J1) as [J' FS'].
  split; auto.
  apply (finsrc_trans (fun _ => False) s s0 s'); auto; [apply P0|apply evo_passive; auto|].
  apply (finsrc_trans (fun k => k = ch) s0 s1 s'); auto. apply F1.
Qed.

Lemma late_nonneg c i : wf_cfg c -> 0 <= getz (c_late c) i.
Proof.
  intros W. unfold getz. destruct (i <? 0); [lia|].
  destruct (nth_in_or_default (Z.to_nat i) (c_late c) 0) as [H|H]; [apply (wf_late _ W); auto|rewrite H; lia].
Qed.

Lemma fire_J e S c i s s' :
  s' = fire e c i s -> wf_cfg c -> Good s -> J e S s -> t_on (get_t i s) = true -> NWw s' -> Slack S (outs s') -> 0 <= S ->
  J e S s' /\ finsrc s s'.
Proof.
  intros Es' W G Jj Hon N SL HS. unfold fire in Es'.
  set (t := get_t i s) in *. set (n := len (c_late c)) in *.
  set (late := if 0 <? n then getz (c_late c) (li s mod n) else 0) in *.
  assert (Hlate : 0 <= late) by (unfold late; destruct (0 <? n); [apply late_nonneg; auto|lia]).
  remember (if 0 <? n then set_li (li s + 1) s else s) as s1 eqn:Es1.
  remember (if now s1 <? t_due t + late then set_now (t_due t + late) s1 else s1) as s2 eqn:Es2.
  remember (if negb (t_per t =? 0)
            then set_t i {| t_on := true; t_due := t_due t + t_per t; t_seq := seqc s2 + 1; t_per := t_per t |} (set_seqc (seqc s2 + 1) s2)
            else set_t i {| t_on := false; t_due := t_due t; t_seq := t_seq t; t_per := 0 |} s2) as s3 eqn:Es3.
  assert (A1 : slots s1 = slots s /\ delay s1 = delay s /\ cnt0 s1 = cnt0 s /\ tb s1 = tb s /\ upc s1 = upc s /\ upl s1 = upl s /\
               outs s1 = outs s /\ now s1 = now s /\ tcd s1 = tcd s /\ tsv s1 = tsv s /\ tup s1 = tup s)
    by (subst s1; destruct (0 <? n); repeat split; reflexivity).
  destruct A1 as (a1 & a2 & a3 & a4 & a5 & a6 & a7 & a8 & a9 & a10 & a11).
  assert (A2 : slots s2 = slots s /\ delay s2 = delay s /\ cnt0 s2 = cnt0 s /\ tb s2 = tb s /\ upc s2 = upc s /\ upl s2 = upl s /\
               outs s2 = outs s /\ now s <= now s2 /\ t_due t + late <= now s2 /\ tcd s2 = tcd s /\ tsv s2 = tsv s /\ tup s2 = tup s).
  { subst s2. destruct (now s1 <? t_due t + late) eqn:E; [apply Z.ltb_lt in E|apply Z.ltb_ge in E]; cbn;
      rewrite ?a1, ?a2, ?a3, ?a4, ?a5, ?a6, ?a7, ?a8, ?a9, ?a10, ?a11; repeat split; auto; try lia. }
  destruct A2 as (b1 & b2 & b3 & b4 & b5 & b6 & b7 & b8 & b8' & b9 & b10 & b11).
  assert (TM : TmrOK s) by apply G. destruct TM as (D0 & Dz & Dp).
  assert (A3 : slots s3 = slots s /\ delay s3 = delay s /\ cnt0 s3 = cnt0 s /\ tb s3 = tb s /\ upc s3 = upc s /\ upl s3 = upl s /\
               outs s3 = outs s /\ now s3 = now s2 /\
               (t_on (tcd s3) = t_on (tcd s) /\ t_per (tcd s3) = t_per (tcd s)) /\
               (match i with TCD => t_due (tcd s3) = t_due (tcd s) + t_per (tcd s) | _ => tcd s3 = tcd s end)).
  { subst s3. destruct i; cbn [set_t]; unfold t, get_t in *.
    - assert (0 < delay s) by (destruct (Z.eq_dec (delay s) 0) as [Z0|]; [rewrite (Dz Z0) in Hon; discriminate|lia]).
      destruct (Dp H) as [_ Pp]. assert (t_per (tcd s) <> 0) by lia.
      destruct (t_per (tcd s) =? 0) eqn:E0; [apply Z.eqb_eq in E0; lia|]. cbn.
      rewrite b1, b2, b3, b4, b5, b6, b7. repeat split; auto.
    - destruct (negb _); cbn; rewrite b1, b2, b3, b4, b5, b6, b7, b9; repeat split; auto.
    - destruct (negb _); cbn; rewrite b1, b2, b3, b4, b5, b6, b7, b9; repeat split; auto. }
  destruct A3 as (c1 & c2 & c3 & c4 & c5 & c6 & c7 & c8 & c9 & c10).
  assert (G3 : Good s3) by (eapply Good_tick; eauto; lia).
  destruct Jj as [Jd Jq Jo].
  unfold run_cb in Es'. destruct i.
  - (* countdown timer: an evaluation whose start is late by what Slack allows *)
    destruct G3 as [I3 T3 _]. unfold t, get_t in *.
    destruct (cd_cb_J e S c _ s3 s' Es' I3 T3 N SL HS) as (J' & FS).
    + intros _. rewrite c10. destruct c9 as [_ ->]. lia.
    + intros He x Hx Ax. right. rewrite c1 in Hx.
      destruct (g_t1 _ G x Hx Ax) as (On & (_ & Hc) & Hp). specialize (Jq He x Hx Ax). nia.
    + intros He. rewrite c7. apply Jo; auto.
    + split; auto. destruct FS as (add & O & Sr). exists add. rewrite c7 in O. split; auto.
      intros tcb ch tg t0 dur u0 u H. destruct (Sr _ _ _ _ _ _ _ H) as [(x & Hx & R)|Hl].
      * left. exists x. rewrite c1 in Hx. auto.
      * right. lia.
  - assert (J3 : J e S s3).
    { constructor; rewrite ?c10, ?c1, ?c7; auto. intros On. specialize (Jd On). lia. }
    assert (P : passive s3 s') by (subst s'; apply passive_do_save).
    destruct (JF_passive e S _ _ P G3 J3) as [J' (add & O & Sr)]. split; auto.
    exists add. rewrite c7 in O. split; auto. intros tcb ch tg t0 dur u0 u H.
    destruct (Sr _ _ _ _ _ _ _ H) as [(x & Hx & R)|Hl]; [left; exists x; rewrite c1 in Hx; auto|right; lia].
  - assert (J3 : J e S s3).
    { constructor; rewrite ?c10, ?c1, ?c7; auto. intros On. specialize (Jd On). lia. }
    assert (F' : frame s3 s').
    { subst s'. apply frame_uptime_usec. }
    assert (N3 : NWw s3) by (eapply NW_frame; eauto).
    assert (P : passive s3 s').
    { rewrite Es'. apply passive_uptime_usec; [apply (i_clk _ (g_inv _ G3))|rewrite <- Es'; exact N]. }
    destruct (JF_passive e S _ _ P G3 J3) as [J' (add & O & Sr)]. split; auto.
    exists add. rewrite c7 in O. split; auto. intros tcb ch tg t0 dur u0 u H.
    destruct (Sr _ _ _ _ _ _ _ H) as [(x & Hx & R)|Hl]; [left; exists x; rewrite c1 in Hx; auto|right; lia].
Qed.

Lemma adv_J e S c fuel : forall end_ s s',
  s' = adv e c fuel end_ s -> wf_cfg c -> Good s -> J e S s -> NWw s' -> Slack S (outs s') -> 0 <= S ->
  J e S s' /\ finsrc s s'.
Proof.
  induction fuel as [|k IH]; intros end_ s s' Es' W G Jj N SL HS; cbn [adv] in Es'.
  - assert (P : passive s s') by (subst s'; apply passive_emit; exact Logic.I). apply JF_passive; auto.
  - destruct (pick s end_) as [i|] eqn:EP; [|subst s'; split; [auto|apply finsrc_refl]].
    apply pick_some in EP. unfold due_ok in EP. apply andb_true_iff in EP. destruct EP as [Hon _].
    remember (fire e c i s) as s1 eqn:Es1.
    assert (F1' : frame s1 s') by (subst s'; apply adv_frame).
    assert (N1 : NWw s1) by (eapply NW_frame; eauto).
    assert (SL1 : Slack S (outs s1)) by (eapply Slack_frame; eauto).
    destruct (fire_spec e c i s s1 Es1 W G Hon N1) as (G1 & F1 & E1).
    destruct (fire_J e S c i s s1 Es1 W G Jj Hon N1 SL1 HS) as (J1 & FS1).
    destruct (IH end_ s1 s' Es' W G1 J1 N SL HS) as (J' & FS').
    split; auto. eapply finsrc_trans; eauto. apply F1.
Qed.
Lemma advance_J e S c dt s s' :
  s' = advance e c dt s -> wf_cfg c -> Good s -> J e S s -> NWw s' -> Slack S (outs s') -> 0 <= S ->
  J e S s' /\ finsrc s s'.
Proof.
  intros Es' W G Jj N SL HS. unfold advance in Es'.
  remember (adv e c (Z.to_nat (dt / 20000 + 64)) (now s + dt) s) as s1 eqn:Es1.
  assert (F1 : frame s s1) by (subst s1; apply adv_frame).
  destruct (now s1 <? now s + dt) eqn:E; [apply Z.ltb_lt in E|apply Z.ltb_ge in E].
  - assert (N1 : NWw s1) by (apply (NW_ext s1 s'); [subst s'; reflexivity|subst s'; reflexivity|subst s'; cbn; lia|exists []; subst s'; reflexivity|exact N]).
    assert (SL1 : Slack S (outs s1)) by (subst s'; exact SL).
    destruct (adv_spec e c _ _ s s1 Es1 W G N1) as (G1 & E1).
    destruct (adv_J e S c _ _ s s1 Es1 W G Jj N1 SL1 HS) as ([Jd Jq Jo] & (add & O & Sr)).
    subst s'. split; [constructor; cbn; auto|exists add; auto].
    intros On. specialize (Jd On). lia.
  - subst s'. eapply adv_J; eauto.
Qed.

Lemma restore_relay_J e S c s s' a r :
  s' = restore_relay e c s (a, r) -> wf_cfg c -> In r (c_relays c) -> Good s -> J e S s -> NWw s' -> Slack S (outs s') -> 0 <= S ->
  J e S s' /\ finsrc s s'.
Proof.
  intros Es' W Hr G Jj N SL HS. unfold restore_relay in Es'. pose proof (wf_chan _ W r Hr) as Hc.
  destruct (_ || _).
  - destruct consts_ok. destruct cf_t3 as [CT1 CT2].
    assert (Lt : (0 <=? r_chan r) && (r_chan r <? ST_T2_COUNT) = true) by (apply andb_true_iff; split; [apply Z.leb_le|apply Z.ltb_lt]; lia).
    rewrite Lt in Es'.
    remember (set_duration_timer e c (r_chan r) (s8 (getz (ram_relay s) a)) (s32 (getz (ram_t2 s) (r_chan r))) 0 s) as s1 eqn:Es1.
    assert (P : passive s1 s') by (subst s'; apply passive_relay_hi).
    assert (N1 : NWw s1) by (eapply NW_passive; eauto).
    assert (SL1 : Slack S (outs s1)) by (eapply Slack_frame; [apply frame_passive; exact P|auto]).
    pose proof (s32_range (getz (ram_t2 s) (r_chan r))).
    destruct (set_duration_timer_spec e c _ _ _ _ s s1 Es1 W G Hc ltac:(lia) N1) as (G1 & F1 & _ & E1 & _).
    destruct (sdt_J e S c _ _ _ _ s s1 Es1 W G Jj Hc ltac:(lia) N1 SL1 HS) as (J1 & FS1).
    destruct (JF_passive e S _ _ P G1 J1) as [J' FS']. split; auto. eapply finsrc_trans; eauto. apply F1.
  - destruct (hasf _ _).
    + assert (P : passive s s') by (subst s'; apply passive_relay_hi). apply JF_passive; auto.
    + subst s'. split; [auto|apply finsrc_refl].
Qed.
Lemma fold_restore_J e S c : forall l s s',
  s' = fold_left (restore_relay e c) l s -> wf_cfg c -> (forall ar, In ar l -> In (snd ar) (c_relays c)) -> Good s -> J e S s ->
  NWw s' -> Slack S (outs s') -> 0 <= S -> J e S s' /\ finsrc s s'.
Proof.
  induction l as [|[a r] l IH]; intros s s' Es' W Hl G Jj N SL HS; cbn [fold_left] in Es'.
  - subst s'. split; [auto|apply finsrc_refl].
  - remember (restore_relay e c s (a, r)) as s1 eqn:Es1.
    assert (F1' : frame s1 s') by (subst s'; apply fold_restore_frame).
    assert (N1 : NWw s1) by (eapply NW_frame; eauto).
    assert (SL1 : Slack S (outs s1)) by (eapply Slack_frame; eauto).
    destruct (restore_relay_spec e c s s1 a r Es1 W (Hl (a, r) (or_introl eq_refl)) G N1) as (G1 & E1).
    destruct (restore_relay_J e S c s s1 a r Es1 W (Hl (a, r) (or_introl eq_refl)) G Jj N1 SL1 HS) as (J1 & FS1).
    destruct (IH s1 s' Es' W (fun ar H => Hl ar (or_intror H)) G1 J1 N SL HS) as (J' & FS').
    split; auto. eapply finsrc_trans; eauto. subst s1. apply restore_relay_frame.
Qed.

(* without the evaluation of the running slots a restored relay costs one relay operation *)
Lemma now_startstop s : now (startstop s) = now s.
Proof. unfold startstop. destruct (_ || _); [destruct (0 <? _)|]; reflexivity. Qed.
Lemma now_arm_slot c ms g ch tg sd s : now (countdown_arm_slot c ms g ch tg sd s) = now s.
Proof.
  unfold countdown_arm_slot. destruct (match find_slot _ _ _ with Some _ => _ | None => _ end) as [i|]; [|reflexivity].
  assert (N1 : now (fst (uptime_msec s)) = now s) by reflexivity.
  destruct (uptime_msec s) as [s1 u]. cbn [fst] in N1. rewrite now_startstop, now_t2_set. cbn [now set_slots emit set_outs]. exact N1.
Qed.
Lemma now_disarm c ch s : now (disarm c ch s) = now s.
Proof.
  unfold disarm. destruct (find_slot _ _ _) as [i|]; [|reflexivity]. destruct (0 <? _); [|reflexivity].
  destruct (chflags_of _ _ _); [destruct (hasf _ _)|]; rewrite ?now_ext_changed, now_t2_set; reflexivity.
Qed.
Lemma now_sdt_false c ch v dur sd s : now (set_duration_timer false c ch v dur sd s) = now s.
Proof.
  unfold set_duration_timer.
  set (stair := (ch <? ST_T2_COUNT) && (ch <? T2_COUNT) && (0 <? getz (time2 s) ch)).
  set (s0 := if stair && (v =? 0) then set_ram_t2 (setz (ram_t2 s) ch 0) s else s).
  assert (N0 : now s0 = now s) by (unfold s0; destruct (stair && (v =? 0)); reflexivity).
  set (dur1 := if stair then _ else dur). clearbody dur1.
  destruct (0 <? dur1); [|rewrite now_disarm; exact N0].
  destruct (find_chan _ _ _) as [[a r]|]; [|rewrite now_disarm; exact N0].
  set (s1 := disarm c (u8 ch) s0). assert (N1 : now s1 = now s) by (unfold s1; rewrite now_disarm; exact N0).
  set (hf := hasf (getz (chfl s1) a) CHFLAG_COUNTDOWN). clearbody hf.
  assert (N2 : now (if (v =? 1) || hf then countdown false c (u32 dur1) (r_gpio r) (u8 ch) (if v =? 0 then 1 else 0) sd s1 else s1) = now s).
  { destruct ((v =? 1) || hf); [|exact N1]. unfold countdown. rewrite now_arm_slot. exact N1. }
  destruct hf; [rewrite now_ext_changed|]; exact N2.
Qed.
Lemma restore_now_false c s ar : now s <= now (restore_relay false c s ar) <= now s + OP.
Proof.
  assert (OPpos : 0 <= OP) by (destruct consts_ok; unfold OP; lia).
  destruct ar as [a r]. unfold restore_relay. destruct (_ || _).
  - rewrite now_relay_hi. destruct (_ && _); [rewrite now_sdt_false|]; lia.
  - destruct (hasf _ _); [rewrite now_relay_hi|]; lia.
Qed.
Lemma fold_restore_now_false c l : forall s, now (fold_left (restore_relay false c) l s) <= now s + Z.of_nat (length l) * OP.
Proof.
  induction l as [|ar l IH]; intros s; cbn [fold_left length]; [lia|].
  pose proof (IH (restore_relay false c s ar)). pose proof (restore_now_false c s ar). rewrite Nat2Z.inj_succ. lia.
Qed.
Lemma enum_length {A} (l : list A) : forall i, length (enum i l) = length l.
Proof. induction l as [|x l IH]; intros i; cbn; auto. Qed.

(* the part of J that survives a restart: the bound on the switch-backs already in the trace *)
Definition OTO (e : bool) (S : Z) (l : list out) : Prop :=
  e = true -> forall tcb ch tg t0 dur u0 u, In (GFinish tcb ch tg t0 dur u0 u) l -> tcb < t0 + dur * 1000 + OTB S.

Lemma boot_J e S c s s' :
  s' = boot e c s -> wf_cfg c -> TrO s -> 0 <= cnt0 s -> tb s <= now s -> 0 <= upc s -> upc s * 4294967296 <= cnt0 s + (now s - tb s) -> OTO e S (outs s) -> NWw s' -> Slack S (outs s') -> 0 <= S ->
  J e S s' /\ (exists add, outs s' = add ++ outs s /\ forall tcb ch tg t0 dur u0 u, In (GFinish tcb ch tg t0 dur u0 u) add -> now s <= t0).
Proof.
  intros Es' W TO C0 Ct Cu CL OT N SL HS. unfold boot, boot_l in Es'.
  remember (t_arm TUP UPTIME_POLL_MS true (set_upl 0 (set_seqc 0 (set_li 0 (set_tcd tmr0 (set_tsv tmr0 (set_tup tmr0 s))))))) as s1 eqn:Es1.
  remember (set_ram_relay (fl_relay s1) (set_ram_t2 (fl_t2 s1) s1)) as s2 eqn:Es2.
  remember (set_slots (repeat slot_free 8) (set_delay 0 s2)) as s3 eqn:Es3.
  remember (set_chfl (if c_lateflags c then map (fun _ => 0) (c_relays c) else map r_chfl (c_relays c)) s3) as s4 eqn:Es4.
  remember (set_obuf [] (set_regreq false (set_queue [] (set_conn false (set_reg false (set_gout 0 s4)))))) as s5 eqn:Es5.
  remember (fold_left (restore_relay false c) (enum 0 (c_relays c)) s5) as s6 eqn:Es6.
  assert (A5 : slots s5 = repeat slot_free 8 /\ delay s5 = 0 /\ tcd s5 = tmr0 /\ cnt0 s5 = cnt0 s /\ tb s5 = tb s /\ now s5 = now s /\
               upc s5 = upc s /\ upl s5 = 0 /\ outs s5 = outs s).
  { subst s5 s4 s3 s2 s1. cbn. repeat split; reflexivity. }
  destruct A5 as (a1 & a2 & a3 & a4 & a5 & a6 & a7 & a8 & a9).
  assert (G5 : Good s5).
  { constructor; [constructor|constructor|]; unfold ClockOK, TmrOK, slot_at; rewrite ?a1, ?a2, ?a3, ?a4, ?a5, ?a6, ?a7, ?a8, ?a9.
    - apply repeat_length.
    - lia.
    - intros x Hx. left. apply (free_inactive x Hx).
    - intros x Hx Ax. destruct (free_inactive x Hx). congruence.
    - intros i j Hi Hj _ Ne. exfalso. apply Ne. apply (free_inactive (nth i (repeat slot_free 8) slot_free)). apply nth_In. rewrite repeat_length. auto.
    - cbn. repeat split; auto; lia.
    - intros * H. destruct (to_fin _ TO _ _ _ _ _ _ _ H) as (A & B & C & D). repeat split; auto.
      intros x Hx Ax. destruct (free_inactive x Hx). congruence.
    - intros x Hx Ax. destruct (free_inactive x Hx). congruence.
    - apply TO.
    - intros x Hx Ax. rewrite a1 in Hx. destruct (free_inactive x Hx). congruence. }
  assert (J5 : J false S s5).
  { constructor; rewrite ?a1, ?a3, ?a9.
    - cbn. intros; discriminate.
    - intros; discriminate.
    - intros; discriminate. }
  remember (fst (uptime_usec s6)) as s7 eqn:Es7.
  assert (F67 : frame s6 s7) by (subst s7; apply frame_uptime_usec).
  assert (F7' : frame s7 s') by (subst s'; constructor; cbn; try reflexivity; try lia; exists []; auto).
  pose proof (frame_trans _ _ _ F67 F7') as F6'.
  assert (N6 : NWw s6) by (eapply NW_frame; eauto).
  assert (SL6 : Slack S (outs s6)) by (eapply Slack_frame; eauto).
  destruct (fold_restore_spec false c _ s5 s6 Es6 W (enum_snd _ 0) G5 N6) as (G6 & E6).
  destruct (fold_restore_J false S c _ s5 s6 Es6 W (enum_snd _ 0) G5 J5 N6 SL6 HS) as (J6 & (add & O6 & Sr6)).
  assert (P67 : passive s6 s7).
  { assert (N7 : NWw s7) by (eapply NW_frame; [exact F7'|exact N]).
    rewrite Es7. apply passive_uptime_usec; [apply (i_clk _ (g_inv _ G6))|rewrite <- Es7; exact N7]. }
  assert (G7 : Good s7) by (eapply Good_passive; eauto).
  destruct (JF_passive false S _ _ P67 G6 J6) as [[Jd _ _] (add7 & O7 & Sr7)].
  (* the loop took at most one relay operation per relay *)
  assert (OPpos : 0 <= OP) by (destruct consts_ok; unfold OP; lia).
  assert (Tb : now s7 <= now s + 8 * OP).
  { pose proof (fold_restore_now_false c (enum 0 (c_relays c)) s5) as B. rewrite <- Es6, enum_length, a6 in B.
    pose proof (wf_len _ W) as L. assert (now s7 = now s6) by (subst s7; reflexivity). nia. }
  assert (New : forall tcb ch tg t0 dur u0 u, In (GFinish tcb ch tg t0 dur u0 u) (add7 ++ add) -> now s <= t0).
  { intros tcb ch tg t0 dur u0 u H. apply in_app_or in H. destruct H as [H|H].
    - destruct (Sr7 _ _ _ _ _ _ _ H) as [(x & Hx & Ax & Ec & Et)|Hl].
      + destruct (E6 x Hx Ax) as [(x0 & Hx0 & Ax0 & _)|[A _]]; [|lia].
        rewrite a1 in Hx0. destruct (free_inactive x0 Hx0). congruence.
      + destruct (fold_restore_frame false c (enum 0 (c_relays c)) s5). rewrite <- Es6 in *. lia.
    - destruct (Sr6 _ _ _ _ _ _ _ H) as [(x & Hx & Ax & _)|Hl]; [|lia].
      rewrite a1 in Hx. destruct (free_inactive x Hx). congruence. }
  assert (O' : outs s' = (add7 ++ add) ++ outs s) by (subst s'; cbn [outs set_seqc]; rewrite O7, O6, a9, app_assoc; reflexivity).
  split; [|exists (add7 ++ add); split; [exact O'|exact New]].
  assert (S' : slots s' = slots s6) by (subst s'; cbn [slots set_seqc]; apply P67).
  assert (Tc' : tcd s' = tcd s7) by (subst s'; reflexivity).
  assert (Nw' : now s' = now s7) by (subst s'; reflexivity).
  constructor.
  - rewrite Tc', Nw'. exact Jd.
  - intros He x Hx Ax. rewrite S' in Hx. rewrite Tc'.
    assert (Hx7 : In x (slots s7)) by (rewrite (pa_slots _ _ P67); exact Hx).
    destruct (g_t1 _ G7 x Hx7 Ax) as (On & _). specialize (Jd On).
    destruct (i_ok _ (g_inv _ G6) x Hx Ax) as [_ _ _ _ _ _ (T1' & T2' & T3')].
    assert (now s <= g_t0 x).
    { destruct (E6 x Hx Ax) as [(x0 & Hx0 & Ax0 & _)|[A _]]; [|lia]. rewrite a1 in Hx0. destruct (free_inactive x0 Hx0). congruence. }
    unfold BQ. lia.
  - intros He tcb ch tg t0 dur u0 u H. rewrite O' in H. apply in_app_or in H. destruct H as [H|H]; [|apply (OT He _ _ _ _ _ _ _ H)].
    pose proof (New _ _ _ _ _ _ _ H) as Ht0.
    assert (H7 : In (GFinish tcb ch tg t0 dur u0 u) (outs s7)) by (rewrite O7, O6; rewrite app_assoc; apply in_or_app; left; exact H).
    destruct (tr_fin _ (g_tr _ G7) _ _ _ _ _ _ _ H7) as (A & B & C & _).
    pose proof WB_range. destruct consts_ok. unfold OTB, BQ. nia.
Qed.

Lemma boot_outs e c s : exists add, outs (boot e c s) = add ++ outs s.
Proof.
  unfold boot, boot_l.
  set (s5 := set_obuf [] _).
  set (s6 := fold_left (restore_relay false c) (enum 0 (c_relays c)) s5).
  destruct (fold_restore_frame false c (enum 0 (c_relays c)) s5) as [_ _ _ (a & E)]. fold s6 in E.
  eexists (_ :: a). unfold uptime_usec. cbn [fst outs set_seqc set_upl set_upc emit set_outs]. rewrite E. reflexivity.
Qed.
Lemma step_outs e c s x : wf_ev x -> exists add, outs (step e c s x) = add ++ outs s.
Proof.
  intros Wx. destruct (is_crash x) eqn:EC.
  - destruct x; try discriminate. unfold step, crash.
    destruct (boot_outs e c (set_upc 0 (set_tb (now s) (set_cnt0 (c_boot2 c) (emit (OReboot (now s)) s))))) as (a & E).
    eexists (_ :: a ++ [OReboot (now s)]). cbn [outs emit set_outs]. rewrite E. cbn [outs set_tb set_cnt0 emit set_outs].
    cbn [app]. rewrite <- app_assoc. reflexivity.
  - apply (step_frame e c s x EC). intros dt ->. exact Wx.
Qed.
Lemma run_outs e c : forall evs s, Forall wf_ev evs -> exists add, outs (run_from e c s evs) = add ++ outs s.
Proof.
  induction evs as [|x evs IH]; intros s Wx; unfold run_from in *; cbn [fold_left]; [exists []; auto|]. inversion Wx; subst.
  destruct (IH (step e c s x) H2) as (a & E). destruct (step_outs e c s x H1) as (b & E').
  exists (a ++ b). rewrite E, E', app_assoc. reflexivity.
Qed.

Lemma chcfg_J e S c ch func ctype csize ms s s' :
  s' = channel_config e c ch func ctype csize ms s -> wf_cfg c -> Good s -> J e S s -> NWw s' -> Slack S (outs s') -> 0 <= S ->
  J e S s' /\ finsrc s s'.
Proof.
  intros Es' W G Jj N SL HS. destruct (chcfg_cases e c ch func ctype csize ms s) as [E|(t & Hch & E)]; rewrite E in Es'.
  - subst s'. split; [auto|apply finsrc_refl].
  - set (s0 := set_time2 (setz (time2 s) ch t) s) in *.
    assert (G0 : Good s0) by (eapply Good_cfgchange; [..|exact G]; reflexivity).
    assert (J0 : J e S s0) by (destruct Jj; constructor; cbn; auto).
    destruct (sdt_J e S c ch 1 0 0 s0 s' Es' W G0 J0 Hch ltac:(lia) N SL HS) as (J1 & (add & O & Sr)).
    split; [auto|]. exists add. split; [exact O|exact Sr].
Qed.

Lemma step_J e S c s x s' :
  s' = step e c s x -> wf_cfg c -> wf_ev x -> Good s -> J e S s -> NWw s' -> Slack S (outs s') -> 0 <= S ->
  J e S s' /\ finsrc s s'.
Proof.
  intros Es' W Wx G Jj N SL HS. unfold step in Es'.
  set (s1 := match x with ESet _ _ _ _ => _ | _ => _ end) in *.
  assert (P : passive s1 s') by (subst s'; apply passive_emit; exact Logic.I).
  assert (N1 : NWw s1) by (eapply NW_passive; eauto).
  assert (SL1 : Slack S (outs s1)) by (eapply Slack_frame; [apply frame_passive; exact P|auto]).
  destruct (step_spec e c s x s' ltac:(subst s'; reflexivity) W Wx G N) as (G' & Hn & E' & _ & _).
  assert (K : Good s1 /\ now s <= now s1 /\ evo (ev_chan c x) s s1 /\ J e S s1 /\ finsrc s s1).
  { destruct x; unfold s1 in *; cbn [ev_chan].
    - destruct (channel_set_value_spec e c (u8 ch) v dur sender s _ eq_refl W G N1) as (G1 & F1 & _ & E1 & _).
      destruct (csv_J e S c (u8 ch) v dur sender s _ eq_refl W G Jj N1 SL1 HS). split; [auto|]. split; [apply F1|]. auto.
    - destruct (relay_switch_spec e c port hi s _ eq_refl W G N1) as (G1 & F1 & _ & E1 & _).
      destruct (rsw_J e S c port hi s _ eq_refl W G Jj N1 SL1 HS). split; [auto|]. split; [apply F1|]. auto.
    - destruct (advance_spec e c dt s _ eq_refl W G N1) as (G1 & E1 & Nw).
      destruct (advance_J e S c dt s _ eq_refl W G Jj N1 SL1 HS). split; [auto|]. split; [pose proof (advance_frame e c dt s Wx) as F; apply F|]. auto.
    - unfold crash in *.
      remember (set_upc 0 (set_tb (now s) (set_cnt0 (c_boot2 c) (emit (OReboot (now s)) s)))) as s0 eqn:Es0.
      assert (N0 : now s0 = now s) by (subst s0; reflexivity).
      assert (O0 : outs s0 = OReboot (now s) :: outs s) by (subst s0; reflexivity).
      assert (TO : TrO s0).
      { pose proof (Tr_TrO _ (g_tr _ G)) as []. constructor; rewrite ?O0, ?N0.
        - intros * [E|H]; [discriminate|]. destruct (to_fin0 _ _ _ _ _ _ _ H) as (A & B & C & D). repeat split; auto. right; auto.
        - cbn [fins]. auto. }
      assert (C0 : 0 <= cnt0 s0) by (subst s0; cbn; apply (wf_boot2 _ W)).
      assert (Ct : tb s0 <= now s0) by (subst s0; cbn; lia).
      assert (Cu : 0 <= upc s0) by (subst s0; cbn; lia).
      assert (CL : upc s0 * 4294967296 <= cnt0 s0 + (now s0 - tb s0)) by (subst s0; cbn; pose proof (wf_boot2 _ W); lia).
      assert (OT0 : OTO e S (outs s0)).
      { intros He tcb ch tg t0 dur u0 u H. rewrite O0 in H. destruct H as [E|H]; [discriminate|]. eapply (j_ot _ _ _ Jj); eauto. }
      destruct (boot_spec e c s0 _ eq_refl W TO C0 Ct Cu CL N1) as (G1 & A1 & A2 & A3 & (add & A4) & A5).
      destruct (boot_J e S c s0 _ eq_refl W TO C0 Ct Cu CL OT0 N1 SL1 HS) as (J1 & (add' & O' & Sr')).
      split; [auto|]. split; [lia|]. split.
      + intros y Hy Ay. right. split; auto. specialize (A5 y Hy Ay). lia.
      + split; [auto|]. exists (add' ++ [OReboot (now s)]). split; [rewrite O', O0, <- app_assoc; reflexivity|].
        intros tcb ch tg t0 dur u0 u H. apply in_app_or in H. destruct H as [H|[E|[]]]; [|discriminate].
        right. specialize (Sr' _ _ _ _ _ _ _ H). lia.
    - assert (G1 : Good (if (0 <=? ch) && (ch <? T2_COUNT) then set_time2 (setz (time2 s) ch ms) s else s)).
      { destruct (_ && _); auto. eapply Good_cfgchange; [..|exact G]; reflexivity. }
      split; [auto|]. destruct (_ && _).
      + split; [cbn; lia|]. split; [apply evo_same_slots; reflexivity|]. split; [|exists []; split; [reflexivity|intros tcb ch0 tg t0 dur u0 u H; contradiction]].
        destruct Jj. constructor; cbn; auto.
      + split; [lia|]. split; [apply evo_refl|]. split; [auto|apply finsrc_refl].
    - split; [eapply Good_cfgchange; [..|exact G]; reflexivity|]. split; [cbn; lia|]. split; [apply evo_same_slots; reflexivity|].
      split; [destruct Jj; constructor; cbn; auto|exists []; split; [reflexivity|intros tcb ch0 tg t0 dur u0 u H; contradiction]].
    - assert (P1 : passive s (emit OUnknown s)) by (apply passive_emit; exact Logic.I).
      destruct (JF_passive e S _ _ P1 G Jj). split; [eapply Good_passive; eauto|]. split; [apply P1|]. split; [apply evo_passive; auto|auto].
    - destruct (chcfg_spec e c ch func ctype csize ms s _ eq_refl W G N1) as (G1 & E1).
      destruct (chcfg_J e S c ch func ctype csize ms s _ eq_refl W G Jj N1 SL1 HS).
      split; [auto|]. split; [apply (chcfg_frame e c ch func ctype csize ms s)|]. auto. }
  destruct K as (G1 & Hn1 & E1 & J1 & FS1).
  destruct (JF_passive e S _ _ P G1 J1) as [J' FS']. split; auto. eapply finsrc_trans; eauto.
Qed.

Lemma run_J e S c : forall evs s, wf_cfg c -> Forall wf_ev evs -> Good s -> J e S s -> NWwrun e c s evs ->
  Slack S (outs (run_from e c s evs)) -> 0 <= S -> Good (run_from e c s evs) /\ J e S (run_from e c s evs).
Proof.
  induction evs as [|x evs IH]; intros s W Wx G Jj N SL HS; [cbn; auto|]. change (run_from e c s (x :: evs)) with (run_from e c (step e c s x) evs) in *.
  apply NWwrun_cons in N. destruct N as [N1 N2]. inversion Wx; subst.
  destruct (run_outs e c evs (step e c s x) H2) as (a & E).
  assert (SL1 : Slack S (outs (step e c s x))) by (rewrite E in SL; eapply Slack_app; eauto).
  destruct (step_spec e c s x _ eq_refl W H1 G N1) as (G1 & _).
  destruct (step_J e S c s x _ eq_refl W H1 G Jj N1 SL1 HS) as (J1 & _).
  apply IH; auto.
Qed.

Lemma start_J e S c : wf_cfg c -> NWw (start e c) -> Slack S (outs (start e c)) -> 0 <= S -> J e S (start e c).
Proof.
  intros W N SL HS. unfold start in *. set (s := boot e c (init c)) in *.
  assert (P : passive s (emit (st_line c s) s)) by (apply passive_emit; exact Logic.I).
  assert (N1 : NWw s) by (eapply NW_passive; eauto).
  assert (SL1 : Slack S (outs s)) by (eapply Slack_frame; [apply frame_passive; exact P|auto]).
  assert (TO : TrO (init c)) by (constructor; cbn; [intros; contradiction|constructor]).
  assert (C0 : 0 <= cnt0 (init c)) by (cbn; apply (wf_boot _ W)).
  assert (Ct : tb (init c) <= now (init c)) by (cbn; lia).
  assert (Cu : 0 <= upc (init c)) by (cbn; apply Z.div_pos; [apply (wf_boot _ W)|lia]).
  assert (CL : upc (init c) * 4294967296 <= cnt0 (init c) + (now (init c) - tb (init c))).
  { cbn [upc cnt0 now tb init]. pose proof (Z.mul_div_le (c_boot c) 4294967296 ltac:(lia)). lia. }
  assert (OT0 : OTO e S (outs (init c))) by (intros _ tcb ch tg t0 dur u0 u H; contradiction).
  destruct (boot_spec e c (init c) s eq_refl W TO C0 Ct Cu CL N1) as (G & _).
  destruct (boot_J e S c (init c) s eq_refl W TO C0 Ct Cu CL OT0 N1 SL1 HS) as (Jj & _).
  eapply J_passive; eauto.
Qed.

(* ---------- on time (repaired countdown) ---------- *)
Section OnTime.
Variable c : cfg.
Hypothesis W : wf_cfg c.
Variable evs : list ev.
Hypothesis Wev : Forall wf_ev evs.
Hypothesis H_nowrap : NWwrun true c (start true c) evs.
Variable S : Z.
Hypothesis HS : 0 <= S.
(* H_slack: every evaluation of the slot table (timer callback, or the one made by a new command) started no later
   than S after the due time of the shared timer: S covers the lateness of the callback and the busy-waits of
   relay operations that delayed it *)
Hypothesis H_slack : Slack S (outs (run_from true c (start true c) evs)).

Theorem on_time_w :
  forall tcb ch tg t0 dur u0 u, In (GFinish tcb ch tg t0 dur u0 u) (run true c evs) ->
    tcb < t0 + dur * 1000 + CD_MIN * 1000 + S + 2 * (8 * OP) + WB.
Proof.
  intros * H. unfold run in H. apply in_rev in H.
  destruct (run_outs true c evs (start true c) Wev) as (a & E).
  assert (SL0 : Slack S (outs (start true c))) by (rewrite E in H_slack; eapply Slack_app; eauto).
  pose proof (H_nowrap 0%nat) as N0. cbn in N0.
  destruct (run_J true S c evs (start true c) W Wev (start_good true c W N0) (start_J true S c W N0 SL0 HS) H_nowrap H_slack HS) as (_ & Jj).
  pose proof (j_ot _ _ _ Jj eq_refl _ _ _ _ _ _ _ H) as B. unfold OTB, BQ in B. lia.
Qed.
End OnTime.

(* ---------- liveness: a completed advance leaves no due timer behind ---------- *)
Lemma adv_done e c fuel : forall end_ s, In OFuel (outs (adv e c fuel end_ s)) \/ pick (adv e c fuel end_ s) end_ = None.
Proof.
  induction fuel as [|k IH]; intros end_ s; cbn [adv].
  - left. left. reflexivity.
  - destruct (pick s end_) eqn:EP; auto.
Qed.
Lemma advance_done e c dt s : let s' := advance e c dt s in
  In OFuel (outs s') \/ (t_on (tcd s') = true -> now s + dt < t_due (tcd s')).
Proof.
  cbv zeta. unfold advance. set (s1 := adv _ _ _ _ _).
  destruct (adv_done e c (Z.to_nat (dt / 20000 + 64)) (now s + dt) s) as [H|H]; fold s1 in H.
  - left. destruct (_ <? _); auto.
  - right. pose proof (pick_none _ _ H TCD) as D. unfold due_ok in D. cbn [get_t] in D.
    assert (K : t_on (tcd s1) = true -> now s + dt < t_due (tcd s1)).
    { intros On. rewrite On in D. cbn in D. apply Z.leb_gt in D. lia. }
    destruct (_ <? _); auto.
Qed.

(* With the repaired countdown(): a slot that is still running after an advance that reached time T was armed less than
   dur + 50 ms + 8 relay operations before T.  Hence once an advance reaches t0 + dur + 50 ms + 8*OP the slot is gone. *)
Theorem fires_by_w c S s dt :
  wf_cfg c -> 0 <= dt -> Good s -> J true S s -> 0 <= S ->
  let s' := advance true c dt s in
  NWw s' -> Slack S (outs s') -> ~ In OFuel (outs s') ->
  forall x, In x (slots s') -> active x = true -> now s + dt < g_t0 x + g_dur x * 1000 + CD_MIN * 1000 + 8 * OP + WB.
Proof.
  intros W Hdt G Jj HS s' N SL NF x Hx Ax.
  destruct (advance_spec true c dt s s' eq_refl W G N) as (G' & _ & _).
  destruct (advance_J true S c dt s s' eq_refl W G Jj N SL HS) as (J' & _).
  destruct (advance_done true c dt s) as [F|D]; [contradiction|]. fold s' in D.
  destruct (g_t1 _ G' x Hx Ax) as (On & (_ & Hc) & Hp).
  specialize (D On). pose proof (j_q _ _ _ J' eq_refl x Hx Ax) as Q.
  destruct (i_ok _ (g_inv _ G') x Hx Ax) as [Sch Sleft Sdur Sacct Slast Su0 (T1' & T2' & T3')].
  assert (Gap : g_tl x - g_t0 x < (g_dur x - s_left x + 1) * 1000 + WB).
  { destruct (i_clk _ (g_inv _ G')) as (_ & _ & _ & Cc & _). destruct N as [Nb _].
    apply rd_diff_hi with (s := s'); [lia|lia|lia|]. rewrite <- Slast, <- Su0. lia. }
  pose proof (period_arith (g_dur x) (s_left x) ltac:(lia)) as PA. unfold BQ in Q. nia.
Qed.

(* ---------- cancellation ---------- *)
Lemma slack_exists l : exists S, 0 <= S /\ Slack S l.
Proof.
  induction l as [|o l (S & HS & SL)]; [exists 0; split; [lia|intros due t []]|].
  destruct o; try (exists S; split; auto; intros due' t' [E|H]; [discriminate|apply SL; auto]).
  exists (Z.max S (t - due)). split; [lia|]. intros due' t' [E|H].
  - injection E as <- <-. lia.
  - specialize (SL _ _ H). lia.
Qed.
Lemma Slack_mono S S' l : S <= S' -> Slack S l -> Slack S' l.
Proof. intros H SL due t Hin. specialize (SL _ _ Hin). lia. Qed.

Lemma fresh_step e c ch t s x s' :
  s' = step e c s x -> wf_cfg c -> wf_ev x -> Good s -> NWw s' -> t <= now s -> fresh ch t s -> fresh ch t s'.
Proof.
  intros Es' W Wx G N Ht F y Hy Ay Ey.
  destruct (step_spec e c s x s' Es' W Wx G N) as (_ & _ & E & _).
  destruct (E y Hy Ay) as [(x0 & Hx0 & Ax0 & (I1 & I2 & _) & _)|[A _]]; [|lia].
  rewrite <- I2. apply F; auto. congruence.
Qed.

(* after a command on channel ch handled at time t1 (state s2: every running slot of ch was armed at or after t1),
   whatever follows, every later switch-back of ch belongs to a timer armed at or after t1 *)
Lemma post_fresh e S c ch t1 : forall post s2,
  wf_cfg c -> Forall wf_ev post -> Good s2 -> J e S s2 -> fresh ch t1 s2 -> t1 <= now s2 -> NWwrun e c s2 post ->
  Slack S (outs (run_from e c s2 post)) -> 0 <= S ->
  forall tcb tg t0 dur u0 u, In (GFinish tcb ch tg t0 dur u0 u) (outs (run_from e c s2 post)) ->
    In (GFinish tcb ch tg t0 dur u0 u) (outs s2) \/ t1 <= t0.
Proof.
  induction post as [|x post IH]; intros s2 W Wp G Jj F Ht N SL HS tcb tg t0 dur u0 u H; [left; exact H|].
  change (run_from e c s2 (x :: post)) with (run_from e c (step e c s2 x) post) in *.
  apply NWwrun_cons in N. destruct N as [N1 N2]. inversion Wp; subst.
  destruct (run_outs e c post (step e c s2 x) H3) as (a & Ea).
  assert (SL1 : Slack S (outs (step e c s2 x))) by (rewrite Ea in SL; eapply Slack_app; eauto).
  destruct (step_spec e c s2 x _ eq_refl W H2 G N1) as (G1 & Hn & E & _ & _).
  destruct (step_J e S c s2 x _ eq_refl W H2 G Jj N1 SL1 HS) as (J1 & (add & O & Sr)).
  pose proof (fresh_step e c ch t1 s2 x _ eq_refl W H2 G N1 Ht F) as F1.
  destruct (IH (step e c s2 x) W H3 G1 J1 F1 ltac:(lia) N2 SL HS _ _ _ _ _ _ H) as [Hin|Hl]; auto.
  rewrite O in Hin. apply in_app_or in Hin. destruct Hin as [Hin|Hin]; auto.
  right. destruct (Sr _ _ _ _ _ _ _ Hin) as [(x0 & Hx0 & Ax0 & Ec & Et)|Hl]; [rewrite <- Et; apply F; auto|lia].
Qed.

Lemma run_from_app e c s a b : run_from e c s (a ++ b) = run_from e c (run_from e c s a) b.
Proof. unfold run_from. apply fold_left_app. Qed.
Lemma NWwrun_app e c s a b : NWwrun e c s (a ++ b) -> NWwrun e c s a /\ NWwrun e c (run_from e c s a) b.
Proof.
  intros H. split.
  - intros k. destruct (Nat.le_ge_cases k (length a)) as [L|L].
    + specialize (H k). rewrite firstn_app in H. replace (k - length a)%nat with 0%nat in H by lia.
      cbn [firstn] in H. rewrite app_nil_r in H. exact H.
    + specialize (H (length a)). rewrite firstn_app in H. rewrite Nat.sub_diag in H. cbn [firstn] in H.
      rewrite app_nil_r, firstn_all in H. rewrite firstn_all2 by lia. exact H.
  - intros k. specialize (H (length a + k)%nat). rewrite firstn_app_2, run_from_app in H. exact H.
Qed.

(* a command event on channel ch of the board *)
Definition cmd_on (c : cfg) (x : ev) (ch : Z) : Prop :=
  match x with
  | ESet ch' _ _ _ => u8 ch' = ch /\ exists r, In r (c_relays c) /\ r_chan r = ch
  | ESw port _ => last_chan (c_relays c) port (-1) = ch /\ 0 <= ch
  | _ => False
  end.

Theorem cancel_w e c pre x post ch :
  wf_cfg c -> Forall wf_ev (pre ++ x :: post) -> NWwrun e c (start e c) (pre ++ x :: post) -> cmd_on c x ch ->
  let s1 := run_from e c (start e c) pre in
  let s2 := step e c s1 x in
  forall tcb tg t0 dur u0 u, In (GFinish tcb ch tg t0 dur u0 u) (outs (run_from e c (start e c) (pre ++ x :: post))) ->
    In (GFinish tcb ch tg t0 dur u0 u) (outs s2) \/ now s1 <= t0.
Proof.
  intros W Wev N Cm s1 s2.
  destruct (slack_exists (outs (run_from e c (start e c) (pre ++ x :: post)))) as (S & HS & SL).
  apply Forall_app in Wev. destruct Wev as [Wpre Wxp]. inversion Wxp as [|? ? Wx Wpost]; subst.
  apply NWwrun_app in N. destruct N as [Npre Nxp]. fold s1 in Nxp.
  pose proof (Npre 0%nat) as N0. cbn in N0.
  rewrite run_from_app in *. fold s1 in SL |- *.
  change (run_from e c s1 (x :: post)) with (run_from e c s2 post) in *.
  destruct (run_outs e c post s2 Wpost) as (a2 & E2). destruct (step_outs e c s1 x Wx) as (ax & Ex). fold s2 in Ex.
  destruct (run_outs e c pre (start e c) Wpre) as (a1 & E1). fold s1 in E1.
  assert (SL2 : Slack S (outs s2)) by (rewrite E2 in SL; eapply Slack_app; eauto).
  assert (SL1 : Slack S (outs s1)) by (rewrite Ex in SL2; eapply Slack_app; eauto).
  assert (SL0 : Slack S (outs (start e c))) by (rewrite E1 in SL1; eapply Slack_app; eauto).
  destruct (run_J e S c pre (start e c) W Wpre (start_good e c W N0) (start_J e S c W N0 SL0 HS) Npre SL1 HS) as (G1 & J1).
  fold s1 in G1, J1.
  apply NWwrun_cons in Nxp. destruct Nxp as [N2 Npost]. fold s2 in N2, Npost.
  destruct (step_spec e c s1 x s2 eq_refl W Wx G1 N2) as (G2 & Hn & _).
  destruct (step_J e S c s1 x s2 eq_refl W Wx G1 J1 N2 SL2 HS) as (J2 & _).
  assert (F2 : fresh ch (now s1) s2).
  { unfold s2, step. set (sm := match x with ESet _ _ _ _ => _ | _ => _ end).
    assert (P : passive sm (emit (st_line c sm) sm)) by (apply passive_emit; exact Logic.I).
    assert (Nm : NWw sm) by (eapply NW_passive; [exact P|exact N2]).
    eapply fresh_passive; [exact P|]. destruct x; cbn [cmd_on] in Cm; try contradiction; unfold sm.
    - destruct Cm as (Eu & r & Hr & Er). unfold sm in Nm. rewrite Eu in *.
      destruct (channel_set_value_spec e c ch v dur sender s1 _ eq_refl W G1 Nm) as (_ & _ & _ & _ & Fr). eapply Fr; eauto.
    - destruct Cm as (El & Hc).
      destruct (relay_switch_spec e c port hi s1 _ eq_refl W G1 Nm) as (_ & _ & _ & _ & Fr). rewrite El in Fr. auto. }
  apply (post_fresh e S c ch (now s1) post s2 W Wpost G2 J2 F2 Hn Npost SL HS).
Qed.

(* ---------- published remaining time ---------- *)
Definition rem (s : st) (ch : Z) : Z := fst (fst (get_state (slots s) ch (0, 0, 0))).
Fixpoint lastm (l : list slot) (ch : Z) : option slot :=
  match l with
  | [] => None
  | x :: t => match lastm t ch with Some y => Some y | None => if s_chan x =? ch then Some x else None end
  end.
Lemma get_state_lastm l ch : forall acc,
  get_state l ch acc = match lastm l ch with Some x => (s_left x, s_target x, s_sender x) | None => acc end.
Proof.
  induction l as [|x l IH]; intros acc; cbn; auto. rewrite IH. destruct (lastm l ch); auto. destruct (s_chan x =? ch); auto.
Qed.
Lemma lastm_some l ch x : lastm l ch = Some x -> In x l /\ s_chan x = ch.
Proof.
  induction l as [|y l IH]; cbn; [discriminate|]. destruct (lastm l ch) eqn:E.
  - intros H. injection H as <-. destruct (IH eq_refl). auto.
  - destruct (s_chan y =? ch) eqn:Ec; [|discriminate]. intros H. injection H as <-. apply Z.eqb_eq in Ec. auto.
Qed.
Lemma lastm_none l ch : lastm l ch = None -> forall x, In x l -> s_chan x <> ch.
Proof.
  induction l as [|y l IH]; cbn; [intros _ x []|]. destruct (lastm l ch) eqn:E; [discriminate|].
  destruct (s_chan y =? ch) eqn:Ec; [discriminate|]. apply Z.eqb_neq in Ec. intros _ x [<-|Hx]; auto.
Qed.
Lemma rem_spec s ch : Inv s -> 0 <= ch < 255 ->
  (exists x, In x (slots s) /\ active x = true /\ s_chan x = ch /\ rem s ch = s_left x) \/
  ((forall x, In x (slots s) -> s_chan x <> ch) /\ rem s ch = 0).
Proof.
  intros I Hch. unfold rem. rewrite get_state_lastm. destruct (lastm (slots s) ch) as [x|] eqn:E.
  - left. destruct (lastm_some _ _ _ E) as [Hx Ec]. exists x. repeat split; auto.
    destruct (i_free _ I x Hx) as [A|A]; auto. lia.
  - right. split; auto. apply (lastm_none _ _ E).
Qed.
Lemma slot_unique s x y : Inv s -> In x (slots s) -> In y (slots s) -> s_chan x = s_chan y -> s_chan x <> 255 -> x = y.
Proof.
  intros I Hx Hy E Ne. destruct (in_slot_at s x Hx) as (i & Hi & <-). destruct (in_slot_at s y Hy) as (j & Hj & <-).
  rewrite (i_len _ I) in *. assert (i = j) by (apply (i_uniq _ I); auto). subst. reflexivity.
Qed.

(* between commands on a channel (and without a restart) its published remaining time never increases *)
Theorem remaining_monotone_w e c s x ch :
  wf_cfg c -> wf_ev x -> Good s -> NWw (step e c s x) -> 0 <= ch < 255 -> ~ ev_chan c x ch ->
  rem (step e c s x) ch <= rem s ch.
Proof.
  intros W Wx G N Hch NC.
  destruct (step_spec e c s x _ eq_refl W Wx G N) as (G' & _ & E & _).
  assert (R0 : 0 <= rem s ch).
  { destruct (rem_spec s ch (g_inv _ G) Hch) as [(x0 & Hx0 & Ax0 & _ & ->)|[_ ->]]; [|lia].
    destruct (i_ok _ (g_inv _ G) x0 Hx0 Ax0). lia. }
  destruct (rem_spec (step e c s x) ch (g_inv _ G') Hch) as [(y & Hy & Ay & Ec & ->)|[_ ->]]; [|lia].
  destruct (E y Hy Ay) as [(x0 & Hx0 & Ax0 & (I1 & _) & Hl & _)|[_ A]]; [|rewrite Ec in A; contradiction].
  destruct (rem_spec s ch (g_inv _ G) Hch) as [(x1 & Hx1 & Ax1 & Ec1 & ->)|[No _]]; [|exfalso; apply (No x0 Hx0); congruence].
  assert (x1 = x0) by (apply (slot_unique s x1 x0 (g_inv _ G) Hx1 Hx0); [congruence|lia]). subst. lia.
Qed.

(* ---------- restart: what the restore branch of supla_esp_gpio_init does for one relay ---------- *)
Lemma pin_gpio_write port v s : 0 <= port -> pin (gpio_write port v s) port = v.
Proof.
  intros Hp. unfold gpio_write. destruct (Bool.eqb (pin s port) v) eqn:E.
  - apply eqb_prop in E. auto.
  - unfold pin. cbn [gout emit set_outs set_gout]. destruct v; [apply Z.setbit_eq|apply Z.clearbit_eq]; auto.
Qed.
Lemma gout_save_state ms s : gout (save_state ms s) = gout s.
Proof. unfold save_state. destruct (0 <? ms); reflexivity. Qed.
Lemma pin_relay_hi c port hi a r s :
  0 <= port -> find_gpio (c_relays c) 0 port = Some (a, r) -> hi = 0 \/ hi = 1 ->
  pin (relay_hi c port hi s) port = xorb (hi =? 1) (hasf (r_flags r) FLAG_LO_LEVEL).
Proof.
  intros Hp EF Hhi. unfold relay_hi. rewrite EF.
  assert (E255 : (hi =? 255) = false) by (destruct Hhi; subst; reflexivity). rewrite E255.
  set (lvl := if hasf (r_flags r) FLAG_LO_LEVEL then _ else hi).
  assert (EL : (lvl =? 1) = xorb (hi =? 1) (hasf (r_flags r) FLAG_LO_LEVEL)).
  { unfold lvl. destruct consts_ok. rewrite cf_hi0, cf_lo0. destruct (hasf (r_flags r) FLAG_LO_LEVEL); destruct Hhi; subst; reflexivity. }
  assert (K : pin (delay_us 10 (delay_us DOUBLE_TRY_US (gpio_write port (lvl =? 1) (delay_us 10 s)))) port = (lvl =? 1)).
  { unfold pin. cbn [gout delay_us set_now]. apply (pin_gpio_write port (lvl =? 1) (delay_us 10 s) Hp). }
  rewrite <- EL. destruct (_ || _); [|exact K].
  unfold pin in *. rewrite gout_save_state. cbn [gout set_ram_relay]. exact K.
Qed.

Lemma disarm_chfl c ch s : chfl (disarm c ch s) = chfl s.
Proof.
  unfold disarm. destruct (find_slot _ _ _); auto. destruct (0 <? _); auto.
  set (s1 := set_slots _ s). pose proof (passive_t2_set ch 0 s1) as P2.
  destruct (chflags_of c ch (t2_set ch 0 s1)); [destruct (hasf _ _)|]; try (rewrite (pa_chfl _ _ P2); reflexivity).
  rewrite (pa_chfl _ _ (passive_ext_changed c ch _)), (pa_chfl _ _ P2). reflexivity.
Qed.
Lemma disarm_free c ch s : (exists x, In x (slots s) /\ s_chan x = 255) -> exists z, In z (slots (disarm c ch s)) /\ s_chan z = 255.
Proof.
  intros (x & Hx & Ex). unfold disarm. destruct (find_slot (slots s) 0 ch) as [j|] eqn:EJ; [|exists x; auto].
  set (y := slot_release _ _ _). set (s1 := set_slots (upd (slots s) (Z.to_nat j) y) s).
  assert (K : exists z, In z (slots s1) /\ s_chan z = 255).
  { unfold s1. cbn [slots set_slots]. destruct (In_nth _ _ slot_free Hx) as (k & Hk & Ek).
    destruct (Nat.eq_dec k (Z.to_nat j)) as [->|Ne].
    - exists y. split; [|reflexivity].
      assert (HI : In (nth (Z.to_nat j) (upd (slots s) (Z.to_nat j) y) slot_free) (upd (slots s) (Z.to_nat j) y)) by (apply nth_In; rewrite upd_length; exact Hk).
      rewrite nth_upd_eq in HI by exact Hk. exact HI.
    - exists x. split; auto.
      assert (HI : In (nth k (upd (slots s) (Z.to_nat j) y) slot_free) (upd (slots s) (Z.to_nat j) y)) by (apply nth_In; rewrite upd_length; exact Hk).
      rewrite nth_upd_ne in HI by auto. rewrite Ek in HI. exact HI. }
  destruct K as (z & Hz & Ez). exists z. split; auto.
  destruct (0 <? _); auto.
  pose proof (passive_t2_set ch 0 s1) as P2.
  destruct (chflags_of c ch (t2_set ch 0 s1)); [destruct (hasf _ _)|]; try (rewrite (pa_slots _ _ P2); exact Hz).
  rewrite (pa_slots _ _ (passive_ext_changed c ch _)), (pa_slots _ _ P2). exact Hz.
Qed.

Theorem restore_one_w e c s a r :
  wf_cfg c -> Good s -> In r (c_relays c) ->
  find_chan (c_relays c) 0 (r_chan r) = Some (a, r) -> find_gpio (c_relays c) 0 (r_gpio r) = Some (a, r) ->
  hasf (r_flags r) FLAG_RESTORE_FORCE || hasf (r_flags r) FLAG_RESTORE = true ->
  let v := getz (ram_relay s) a in
  let T := getz (ram_t2 s) (r_chan r) in
  let s' := restore_relay e c s (a, r) in
  v = 0 \/ v = 1 -> NWw s' ->
  (* the relay comes back in its saved state ... *)
  pin s' (r_gpio r) = xorb (v =? 1) (hasf (r_flags r) FLAG_LO_LEVEL) /\
  (* ... and, when a remaining time was saved and the timer could have been armed before the restart (on for T, or off
     for T on a channel whose countdown capability is already known and that is no staircase channel), it is armed again
     for the saved remaining time with the opposite target *)
  (0 < T < 2147483648 -> (exists x, In x (slots s) /\ s_chan x = 255) ->
   v = 1 \/ (getz (time2 s) (r_chan r) = 0 /\ hasf (getz (chfl s) a) CHFLAG_COUNTDOWN = true) ->
   exists t0, now s <= t0 <= now s + 8 * OP /\ In (GArm t0 (r_chan r) T (1 - v)) (outs s')).
Proof.
  intros W G Hr EFC EFG Hfl v T s' Hv N.
  pose proof (wf_chan _ W r Hr) as Hc. pose proof (wf_gpio _ W r Hr) as Hg.
  destruct consts_ok. destruct cf_t3 as [CT1 CT2].
  unfold s', restore_relay in *. rewrite Hfl in *.
  assert (Lt : (0 <=? r_chan r) && (r_chan r <? ST_T2_COUNT) = true) by (apply andb_true_iff; split; [apply Z.leb_le|apply Z.ltb_lt]; lia).
  rewrite Lt in *. fold v T in N |- *.
  set (s1 := set_duration_timer e c (r_chan r) (s8 v) (s32 T) 0 s) in *.
  split; [apply (pin_relay_hi c (r_gpio r) v a r s1); auto; lia|].
  intros HT (xf & Hxf & Exf) Hcase.
  assert (P : passive s1 (relay_hi c (r_gpio r) v s1)) by apply passive_relay_hi.
  destruct (pa_outs _ _ P) as (ap & Eo & _).
  assert (N1 : NWw s1) by (eapply NW_passive; eauto).
  assert (E8 : s8 v = v) by (destruct Hv as [->| ->]; reflexivity).
  assert (E32 : s32 T = T) by (unfold s32; rewrite Z.mod_small by lia; destruct (T <? 2147483648) eqn:E; auto; apply Z.ltb_ge in E; lia).
  cut (exists t0, now s <= t0 <= now s + 8 * OP /\ In (GArm t0 (r_chan r) T (1 - v)) (outs s1)).
  { intros (t0 & Ht & Hin). exists t0. split; auto. rewrite Eo. apply in_or_app. right. exact Hin. }
  clear P ap Eo.
  unfold s1 in *. rewrite E8, E32 in *. clear s1.
  unfold set_duration_timer in *.
  set (stair := (r_chan r <? ST_T2_COUNT) && (r_chan r <? T2_COUNT) && (0 <? getz (time2 s) (r_chan r))) in *.
  assert (Hst : stair && (v =? 0) = false).
  { destruct Hcase as [->|[Z0 _]]; [apply andb_false_r|]. unfold stair. rewrite Z0. cbn. rewrite !andb_false_r. reflexivity. }
  rewrite Hst in *.
  set (dur1 := if stair then _ else T) in *.
  assert (Hd : dur1 = T).
  { unfold dur1. destruct stair; auto. destruct (v =? 0) eqn:E0; [cbn in Hst; discriminate|].
    fold T. rewrite (u32_small T) by lia. rewrite Z.eqb_refl. cbn. destruct (T =? 0) eqn:ET; [apply Z.eqb_eq in ET; lia|reflexivity]. }
  rewrite Hd in *. rewrite u8_small in * by lia.
  destruct (disarm_spec c (r_chan r) s ltac:(lia) G) as (G1 & F1 & D1 & C1 & Nn1 & NoCh & E1 & (ad & Od & _)).
  set (s1 := disarm c (r_chan r) s) in *.
  assert (HT' : (0 <? T) = true) by (apply Z.ltb_lt; lia). rewrite HT' in *. rewrite EFC in *.
  set (f := getz (chfl s1) a) in *.
  assert (Ef : f = getz (chfl s) a) by (unfold f, s1; rewrite disarm_chfl; reflexivity).
  assert (Hcond : (v =? 1) || hasf f CHFLAG_COUNTDOWN = true).
  { destruct Hcase as [->|[_ Hf]]; [reflexivity|]. rewrite Ef, Hf. apply orb_true_r. }
  rewrite Hcond in *. rewrite (u32_small T) in * by lia.
  set (s2 := countdown e c T (r_gpio r) (r_chan r) (if v =? 0 then 1 else 0) 0 s1) in *.
  assert (P2 : passive s2 (if hasf f CHFLAG_COUNTDOWN then ext_changed c (r_chan r) s2 else s2))
    by (destruct (hasf f _); [apply passive_ext_changed|apply passive_refl]).
  destruct (pa_outs _ _ P2) as (a2 & Eo2 & _).
  assert (N2 : NWw s2) by (eapply NW_passive; eauto).
  cut (exists t0, now s <= t0 <= now s + 8 * OP /\ In (GArm t0 (r_chan r) T (1 - v)) (outs s2)).
  { intros (t0 & Ht & Hin). exists t0. split; auto. rewrite Eo2. apply in_or_app. right. exact Hin. }
  clear P2 a2 Eo2.
  destruct (disarm_free c (r_chan r) s (ex_intro _ xf (conj Hxf Exf))) as (z & Hz & Ez). fold s1 in Hz.
  assert (OPpos : 0 <= OP) by (unfold OP; lia).
  (* the state in which the slot is taken: after the evaluation of the running slots (repaired code) *)
  assert (K : exists s0, s2 = countdown_arm_slot c T (r_gpio r) (r_chan r) (if v =? 0 then 1 else 0) 0 s0 /\ Good s0 /\
              now s <= now s0 <= now s + 8 * OP /\ (forall x, In x (slots s0) -> s_chan x <> r_chan r) /\
              (exists z0, In z0 (slots s0) /\ s_chan z0 = 255)).
  { unfold s2, countdown. destruct e.
    - remember (cd_cb c (if t_on (tcd s1) then t_due (tcd s1) else now s1) s1) as s0 eqn:Es0.
      exists s0. split; [reflexivity|].
      assert (N0 : NWw s0) by (eapply NW_frame; [|exact N2]; unfold s2, countdown; rewrite <- Es0; apply arm_slot_frame).
      destruct (cd_cb_spec c _ s1 s0 Es0 (g_inv _ G1) (g_tr _ G1) N0) as (G0 & F0 & Nw0 & EV & _ & _).
      split; [auto|]. split; [destruct F0; lia|]. split.
      + apply (evald_nochan s1 s0 (r_chan r) ltac:(lia) (g_inv _ G1) (i_len _ (g_inv _ G0)) EV NoCh).
      + destruct (in_slot_at s1 z Hz) as (i & Hi & Ei). rewrite (i_len _ (g_inv _ G1)) in Hi.
        exists (slot_at s0 i). split; [apply slot_at_in; rewrite (i_len _ (g_inv _ G0)); auto|].
        destruct (EV i Hi) as [[A B]|(A & tl & R & _)].
        * rewrite B, Ei. exact Ez.
        * rewrite Ei in A. unfold active in A. rewrite Ez in A. cbn in A. discriminate.
    - exists s1. split; [reflexivity|]. split; [auto|]. split; [lia|]. split; [auto|]. exists z. auto. }
  destruct K as (s0 & Es2 & G0 & Hn0 & NoCh0 & (z0 & Hz0 & Ez0)).
  destruct (countdown_arm c T (r_gpio r) (r_chan r) (if v =? 0 then 1 else 0) 0 s0 s2 Es2 (g_inv _ G0) (g_tr _ G0) ltac:(lia) ltac:(lia) NoCh0 N2)
    as [[_ NoFree]|(s3 & E' & I3 & T3 & F03 & Now3 & _ & _ & _ & _ & (add & O3 & _ & HA))].
  - exfalso. apply (NoFree z0); auto.
  - exists (now s0). split; [exact Hn0|]. rewrite E'.
    destruct (fr_outs _ _ (frame_startstop s3)) as (a3 & Eo3). rewrite Eo3. apply in_or_app. right. rewrite O3. apply in_or_app. left.
    replace (1 - v) with (if v =? 0 then 1 else 0) by (destruct Hv as [->| ->]; reflexivity). exact HA.
Qed.

End W.

(* ---------- no wrap at all: the instance WB = 0 ----------
   NW / NWrun are the plain "the 32-bit counter does not wrap" hypotheses; the theorems below are the statements
   proved before counter wraps were followed, now instances of the general ones (suffix _w). *)
Definition NW (s : st) : Prop := cnt0 s + (now s - tb s) < 4294967296.
Definition NWrun (e : bool) (c : cfg) (s : st) (evs : list ev) : Prop := forall k, NW (run_from e c s (firstn k evs)).
Definition nowrap : Wraps := {| WB := 0; WB_range := conj (Z.le_refl 0) eq_refl |}.
Global Existing Instance nowrap.
Lemma NW_NWw s : NW s -> @NWw nowrap s.
Proof. intros H. split; [exact H|left; reflexivity]. Qed.
Lemma NWw_NW s : @NWw nowrap s -> NW s.
Proof. intros [H _]. exact H. Qed.
Lemma NWrun_NWwrun e c s evs : NWrun e c s evs -> @NWwrun nowrap e c s evs.
Proof. intros H k. apply NW_NWw. apply H. Qed.

Theorem armed_period_bound_thm e c : wf_cfg c -> forall evs, Forall wf_ev evs -> NWrun e c (start e c) evs ->
  forall x, In x (slots (run_from e c (start e c) evs)) -> active x = true ->
    t_on (tcd (run_from e c (start e c) evs)) = true /\
    CD_MIN <= delay (run_from e c (start e c) evs) <= clampd (s_left x) /\
    t_per (tcd (run_from e c (start e c) evs)) = delay (run_from e c (start e c) evs) * 1000.
Proof. intros W evs Wev N. exact (@armed_period_bound_w nowrap e c W evs Wev (NWrun_NWwrun _ _ _ _ N)). Qed.
Theorem never_early_thm e c : wf_cfg c -> forall evs, Forall wf_ev evs -> NWrun e c (start e c) evs ->
  forall tcb ch tg t0 dur u0 u, In (GFinish tcb ch tg t0 dur u0 u) (run e c evs) ->
    (dur - 1) * 1000 < tcb - t0 /\ In (GArm t0 ch dur tg) (run e c evs).
Proof. intros W evs Wev N. exact (@never_early_w nowrap e c W evs Wev (NWrun_NWwrun _ _ _ _ N)). Qed.
Theorem at_most_once_thm e c : wf_cfg c -> forall evs, Forall wf_ev evs -> NWrun e c (start e c) evs ->
  NoDup (fins (outs (run_from e c (start e c) evs))).
Proof. intros W evs Wev N. exact (@at_most_once_w nowrap e c W evs Wev (NWrun_NWwrun _ _ _ _ N)). Qed.
Theorem on_time_thm c : wf_cfg c -> forall evs, Forall wf_ev evs -> NWrun true c (start true c) evs ->
  forall S, 0 <= S -> Slack S (outs (run_from true c (start true c) evs)) ->
  forall tcb ch tg t0 dur u0 u, In (GFinish tcb ch tg t0 dur u0 u) (run true c evs) ->
    tcb < t0 + dur * 1000 + CD_MIN * 1000 + S + 2 * (8 * OP).
Proof.
  intros W evs Wev N S HS SL tcb ch tg t0 dur u0 u H.
  pose proof (@on_time_w nowrap c W evs Wev (NWrun_NWwrun _ _ _ _ N) S HS SL tcb ch tg t0 dur u0 u H) as B.
  change (@WB nowrap) with 0 in B. lia.
Qed.
Theorem fires_by_thm c S s dt :
  wf_cfg c -> 0 <= dt -> Good s -> J true S s -> 0 <= S ->
  let s' := advance true c dt s in
  NW s' -> Slack S (outs s') -> ~ In OFuel (outs s') ->
  forall x, In x (slots s') -> active x = true -> now s + dt < g_t0 x + g_dur x * 1000 + CD_MIN * 1000 + 8 * OP.
Proof.
  intros W Hdt G Jj HS s' N SL NF x Hx Ax.
  pose proof (@fires_by_w nowrap c S s dt W Hdt G Jj HS (NW_NWw _ N) SL NF x Hx Ax) as B.
  change (@WB nowrap) with 0 in B. lia.
Qed.
Theorem cancel_thm e c pre x post ch :
  wf_cfg c -> Forall wf_ev (pre ++ x :: post) -> NWrun e c (start e c) (pre ++ x :: post) -> cmd_on c x ch ->
  let s1 := run_from e c (start e c) pre in
  let s2 := step e c s1 x in
  forall tcb tg t0 dur u0 u, In (GFinish tcb ch tg t0 dur u0 u) (outs (run_from e c (start e c) (pre ++ x :: post))) ->
    In (GFinish tcb ch tg t0 dur u0 u) (outs s2) \/ now s1 <= t0.
Proof. intros W Wev N Hc. exact (@cancel_w nowrap e c pre x post ch W Wev (NWrun_NWwrun _ _ _ _ N) Hc). Qed.
Theorem remaining_monotone_thm e c s x ch :
  wf_cfg c -> wf_ev x -> Good s -> NW (step e c s x) -> 0 <= ch < 255 -> ~ ev_chan c x ch ->
  rem (step e c s x) ch <= rem s ch.
Proof. intros W Wx G N. exact (@remaining_monotone_w nowrap e c s x ch W Wx G (NW_NWw _ N)). Qed.
Theorem restore_one_thm e c s a r :
  wf_cfg c -> Good s -> In r (c_relays c) ->
  find_chan (c_relays c) 0 (r_chan r) = Some (a, r) -> find_gpio (c_relays c) 0 (r_gpio r) = Some (a, r) ->
  hasf (r_flags r) FLAG_RESTORE_FORCE || hasf (r_flags r) FLAG_RESTORE = true ->
  let v := getz (ram_relay s) a in
  let T := getz (ram_t2 s) (r_chan r) in
  let s' := restore_relay e c s (a, r) in
  v = 0 \/ v = 1 -> NW s' ->
  pin s' (r_gpio r) = xorb (v =? 1) (hasf (r_flags r) FLAG_LO_LEVEL) /\
  (0 < T < 2147483648 -> (exists x, In x (slots s) /\ s_chan x = 255) ->
   v = 1 \/ (getz (time2 s) (r_chan r) = 0 /\ hasf (getz (chfl s) a) CHFLAG_COUNTDOWN = true) ->
   exists t0, now s <= t0 <= now s + 8 * OP /\ In (GArm t0 (r_chan r) T (1 - v)) (outs s')).
Proof.
  intros W G Hr EFC EFG Hfl v T s' Hv N.
  exact (@restore_one_w nowrap e c s a r W G Hr EFC EFG Hfl Hv (NW_NWw _ N)).
Qed.

(* ---------- the hypotheses are satisfiable: decidable versions, evaluated on the witness histories ---------- *)
Definition nwb (s : st) : bool := cnt0 s + (now s - tb s) <? 4294967296.
Definition nwrunb (e : bool) (c : cfg) (evs : list ev) : bool :=
  forallb (fun k => nwb (run_from e c (start e c) (firstn k evs))) (seq 0 (S (length evs))).
Lemma nwb_NW s : nwb s = true -> NW s.
Proof. unfold nwb, NW. intros H. apply Z.ltb_lt in H. exact H. Qed.
Lemma firstn_min {A} k (l : list A) : firstn k l = firstn (Nat.min k (length l)) l.
Proof.
  destruct (Nat.le_ge_cases k (length l)); [rewrite Nat.min_l by lia; reflexivity|].
  rewrite Nat.min_r by lia. rewrite firstn_all. apply firstn_all2. lia.
Qed.
Lemma nwrunb_ok e c evs :
  forallb (fun k => nwb (run_from e c (start e c) (firstn k evs))) (seq 0 (S (length evs))) = true -> NWrun e c (start e c) evs.
Proof.
  intros H k. pose proof (proj1 (forallb_forall _ _) H) as H'. clear H.
  rewrite (firstn_min k evs). apply nwb_NW. apply (H' (Nat.min k (length evs))). apply in_seq. lia.
Qed.
Definition slackb (S : Z) (l : list out) : bool :=
  forallb (fun o => match o with GEvalStart due t => t <=? due + S | _ => true end) l.
Lemma slackb_ok S l : slackb S l = true -> Slack S l.
Proof.
  intros H due t Hin. unfold slackb in H. rewrite forallb_forall in H. specialize (H _ Hin). cbn in H. apply Z.leb_le in H. exact H.
Qed.
Definition wf_cfgb (c : cfg) : bool :=
  forallb (fun r => (0 <=? r_chan r) && (r_chan r <? 8) && (0 <=? r_gpio r) && (r_gpio r <? 16)) (c_relays c) &&
  forallb (fun j => 0 <=? j) (c_late c) && (0 <=? c_boot c) && (0 <=? c_boot2 c) && (length (c_relays c) <=? 8)%nat.
Lemma wf_cfgb_ok c : wf_cfgb c = true -> wf_cfg c.
Proof.
  unfold wf_cfgb. rewrite !andb_true_iff, !forallb_forall. intros [[[[A B] C] D] L].
  constructor; try (apply Z.leb_le; auto); try (apply Nat.leb_le; exact L).
  - intros r Hr. specialize (A r Hr). rewrite !andb_true_iff in A. destruct A as [[[A1 A2] _] _]. apply Z.leb_le in A1. apply Z.ltb_lt in A2. lia.
  - intros r Hr. specialize (A r Hr). rewrite !andb_true_iff in A. destruct A as [[_ A3] A4]. apply Z.leb_le in A3. apply Z.ltb_lt in A4. lia.
  - intros j Hj. apply Z.leb_le. auto.
Qed.
Definition wf_evsb (evs : list ev) : bool := forallb (fun x => match x with EAdv dt => 0 <=? dt | _ => true end) evs.
Lemma wf_evsb_ok evs : wf_evsb evs = true -> Forall wf_ev evs.
Proof.
  unfold wf_evsb. rewrite forallb_forall. intros H. apply Forall_forall. intros x Hx. specialize (H x Hx).
  destruct x; cbn; auto. apply Z.leb_le. auto.
Qed.
Lemma hypotheses_satisfiable_thm :
  wf_cfg storm_cfg /\ Forall wf_ev early_evs /\ NWrun true storm_cfg (start true storm_cfg) early_evs /\
  Slack 0 (outs (run_from true storm_cfg (start true storm_cfg) early_evs)) /\
  wf_cfg serial_cfg /\ Forall wf_ev serial_evs /\ NWrun true serial_cfg (start true serial_cfg) serial_evs /\
  Slack 30160 (outs (run_from true serial_cfg (start true serial_cfg) serial_evs)) /\
  wf_cfg (late_cfg false) /\ Forall wf_ev late_evs /\ NWrun false (late_cfg false) (start false (late_cfg false)) late_evs.
Proof.
  split; [apply wf_cfgb_ok; vm_compute; reflexivity|]. split; [apply wf_evsb_ok; vm_compute; reflexivity|].
  split; [apply nwrunb_ok; vm_compute; reflexivity|]. split; [apply slackb_ok; vm_compute; reflexivity|].
  split; [apply wf_cfgb_ok; vm_compute; reflexivity|]. split; [apply wf_evsb_ok; vm_compute; reflexivity|].
  split; [apply nwrunb_ok; vm_compute; reflexivity|]. split; [apply slackb_ok; vm_compute; reflexivity|].
  split; [apply wf_cfgb_ok; vm_compute; reflexivity|]. split; [apply wf_evsb_ok; vm_compute; reflexivity|].
  apply nwrunb_ok; vm_compute; reflexivity.
Qed.
