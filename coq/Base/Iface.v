(* Uniform wire format between the python harness and every extracted model:
   an event / output is (kind, integer arguments, bytes). *)
From Coq Require Import List ZArith.
Definition wire : Type := (Z * list Z * list Z)%type.
Definition mk (k : Z) (a : list Z) (b : list Z) : wire := (k, a, b).
