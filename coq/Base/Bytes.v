(* Byte strings as lists of Z in [0,256). *)
From Coq Require Import List ZArith Lia Bool.
Import ListNotations.
Local Open Scope Z_scope.

Definition len {A} (l : list A) : Z := Z.of_nat (length l).
Definition byte_ok (b : Z) := 0 <= b < 256.
Definition bytes_ok (l : list Z) := Forall byte_ok l.
Definition nthz (l : list Z) (i : Z) : Z := nth (Z.to_nat i) l 0.
Definition take {A} (n : Z) (l : list A) := firstn (Z.to_nat n) l.
Definition drop {A} (n : Z) (l : list A) := skipn (Z.to_nat n) l.
Definition le16 (l : list Z) (o : Z) : Z := nthz l o + 256 * nthz l (o+1).
Definition be16 (l : list Z) (o : Z) : Z := 256 * nthz l o + nthz l (o+1).
Definition le32 (l : list Z) (o : Z) : Z :=
  nthz l o + 256 * nthz l (o+1) + 65536 * nthz l (o+2) + 16777216 * nthz l (o+3).
Definition enc32 (v : Z) : list Z :=
  [v mod 256; (v / 256) mod 256; (v / 65536) mod 256; (v / 16777216) mod 256].
Definition list_eqb (a b : list Z) : bool := if list_eq_dec Z.eq_dec a b then true else false.
Definition zeros (n : Z) : list Z := repeat 0 (Z.to_nat n).

Lemma len_nonneg {A} (l : list A) : 0 <= len l. Proof. unfold len; lia. Qed.
Lemma len_app {A} (a b : list A) : len (a ++ b) = len a + len b.
Proof. unfold len; rewrite app_length; lia. Qed.
Lemma len_nil {A} : len (@nil A) = 0. Proof. reflexivity. Qed.
Lemma len_cons {A} (x : A) l : len (x :: l) = 1 + len l.
Proof. unfold len; cbn [length]; lia. Qed.
Lemma len_take {A} n (l : list A) : 0 <= n -> len (take n l) = Z.min n (len l).
Proof. intros; unfold len, take; rewrite firstn_length; lia. Qed.
Lemma len_drop {A} n (l : list A) : 0 <= n -> len (drop n l) = Z.max 0 (len l - n).
Proof. intros; unfold len, drop; rewrite skipn_length; lia. Qed.
Lemma take_drop {A} n (l : list A) : take n l ++ drop n l = l.
Proof. apply firstn_skipn. Qed.
Lemma take_all {A} n (l : list A) : len l <= n -> take n l = l.
Proof. intros; unfold take; apply firstn_all2; unfold len in *; lia. Qed.
Lemma drop_all {A} n (l : list A) : len l <= n -> drop n l = [].
Proof. intros; unfold drop; apply skipn_all2; unfold len in *; lia. Qed.
Lemma drop_0 {A} (l : list A) : drop 0 l = l. Proof. reflexivity. Qed.
Lemma take_app_le {A} n (a b : list A) : 0 <= n <= len a -> take n (a ++ b) = take n a.
Proof.
  intros; unfold take. rewrite firstn_app.
  replace (Z.to_nat n - length a)%nat with 0%nat by (unfold len in *; lia).
  cbn [firstn]; apply app_nil_r.
Qed.
Lemma drop_app_le {A} n (a b : list A) : 0 <= n <= len a -> drop n (a ++ b) = drop n a ++ b.
Proof.
  intros; unfold drop. rewrite skipn_app.
  replace (Z.to_nat n - length a)%nat with 0%nat by (unfold len in *; lia).
  reflexivity.
Qed.
Lemma drop_app_ge {A} n (a b : list A) : len a <= n -> drop n (a ++ b) = drop (n - len a) b.
Proof.
  intros; unfold drop. rewrite skipn_app, skipn_all2 by (unfold len in *; lia).
  cbn [app]. f_equal. unfold len in *; lia.
Qed.
Lemma take_app_exact {A} (a b : list A) : take (len a) (a ++ b) = a.
Proof. unfold take, len. rewrite Nat2Z.id. rewrite firstn_app, Nat.sub_diag, firstn_all. cbn. apply app_nil_r. Qed.
Lemma drop_app_exact {A} (a b : list A) : drop (len a) (a ++ b) = b.
Proof. unfold drop, len. rewrite Nat2Z.id. rewrite skipn_app, Nat.sub_diag, skipn_all. reflexivity. Qed.
Lemma drop_drop {A} a b (l : list A) : 0 <= a -> 0 <= b -> drop a (drop b l) = drop (a + b) l.
Proof.
  intros; unfold drop. revert l. replace (Z.to_nat (a + b)) with (Z.to_nat b + Z.to_nat a)%nat by lia.
  generalize (Z.to_nat a) as x. induction (Z.to_nat b) as [|y IH]; intros x l.
  - reflexivity.
  - destruct l; cbn [skipn Nat.add]. + destruct x; reflexivity. + apply IH.
Qed.
Lemma nthz_app_l (a b : list Z) i : 0 <= i < len a -> nthz (a ++ b) i = nthz a i.
Proof. intros; unfold nthz; apply app_nth1; unfold len in *; lia. Qed.
Lemma nthz_ok l i : bytes_ok l -> byte_ok (nthz l i).
Proof.
  intros H; unfold nthz.
  destruct (nth_in_or_default (Z.to_nat i) l 0) as [Hin|Hd].
  - unfold bytes_ok in H; rewrite Forall_forall in H; auto.
  - rewrite Hd; unfold byte_ok; lia.
Qed.
Lemma le32_range l o : bytes_ok l -> 0 <= le32 l o < 4294967296.
Proof.
  intros H; unfold le32.
  pose proof (nthz_ok l o H); pose proof (nthz_ok l (o+1) H);
  pose proof (nthz_ok l (o+2) H); pose proof (nthz_ok l (o+3) H).
  unfold byte_ok in *; lia.
Qed.
Lemma le32_app_l (a b : list Z) o : 0 <= o -> o + 4 <= len a -> le32 (a ++ b) o = le32 a o.
Proof. intros; unfold le32; rewrite !nthz_app_l by lia; reflexivity. Qed.
Lemma list_eqb_true a b : list_eqb a b = true <-> a = b.
Proof. unfold list_eqb; destruct (list_eq_dec Z.eq_dec a b); split; congruence. Qed.
Lemma list_eqb_false a b : list_eqb a b = false <-> a <> b.
Proof. unfold list_eqb; destruct (list_eq_dec Z.eq_dec a b); split; congruence. Qed.
Lemma list_eqb_refl a : list_eqb a a = true. Proof. apply list_eqb_true; reflexivity. Qed.
Lemma bytes_ok_app a b : bytes_ok (a ++ b) <-> bytes_ok a /\ bytes_ok b.
Proof. unfold bytes_ok; apply Forall_app. Qed.
Lemma bytes_ok_take n l : bytes_ok l -> bytes_ok (take n l).
Proof. intros H; unfold take; rewrite <- (firstn_skipn (Z.to_nat n) l) in H; apply Forall_app in H; tauto. Qed.
Lemma bytes_ok_drop n l : bytes_ok l -> bytes_ok (drop n l).
Proof. intros H; unfold drop; rewrite <- (firstn_skipn (Z.to_nat n) l) in H; apply Forall_app in H; tauto. Qed.
