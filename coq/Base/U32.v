(* Fixed-width unsigned arithmetic as the C code computes it. *)
From Coq Require Import ZArith Lia.
Local Open Scope Z_scope.

Definition u32 (z : Z) : Z := z mod 4294967296.
Definition u16 (z : Z) : Z := z mod 65536.
Definition u8  (z : Z) : Z := z mod 256.
(* two's-complement reinterpretations *)
Definition s32 (z : Z) : Z := let m := z mod 4294967296 in if m <? 2147483648 then m else m - 4294967296.
Definition s8  (z : Z) : Z := let m := z mod 256 in if m <? 128 then m else m - 256.

Lemma u32_small z : 0 <= z < 4294967296 -> u32 z = z.
Proof. intros; unfold u32; apply Z.mod_small; lia. Qed.
Lemma u32_range z : 0 <= u32 z < 4294967296.
Proof. unfold u32; apply Z.mod_pos_bound; lia. Qed.
Lemma u8_small z : 0 <= z < 256 -> u8 z = z.
Proof. intros; unfold u8; apply Z.mod_small; lia. Qed.
Lemma u8_range z : 0 <= u8 z < 256.
Proof. unfold u8; apply Z.mod_pos_bound; lia. Qed.
Lemma u16_small z : 0 <= z < 65536 -> u16 z = z.
Proof. intros; unfold u16; apply Z.mod_small; lia. Qed.
Lemma u16_range z : 0 <= u16 z < 65536.
Proof. unfold u16; apply Z.mod_pos_bound; lia. Qed.
Lemma u32_idem z : u32 (u32 z) = u32 z.
Proof. unfold u32; apply Z.mod_mod; lia. Qed.
Lemma u32_add_l a b : u32 (u32 a + b) = u32 (a + b).
Proof. unfold u32; apply Zplus_mod_idemp_l. Qed.
Lemma u32_add_r a b : u32 (a + u32 b) = u32 (a + b).
Proof. unfold u32; apply Zplus_mod_idemp_r. Qed.
Lemma u32_sub_l a b : u32 (u32 a - b) = u32 (a - b).
Proof. unfold u32; apply Zminus_mod_idemp_l. Qed.
Lemma u32_sub_r a b : u32 (a - u32 b) = u32 (a - b).
Proof. unfold u32; apply Zminus_mod_idemp_r. Qed.
(* elapsed time computed from two readings of the wrapping counter *)
Lemma u32_diff_shift boot a b : 0 <= a - b < 4294967296 -> u32 (u32 (boot + a) - u32 (boot + b)) = a - b.
Proof.
  intros H. rewrite u32_sub_l, u32_sub_r. replace (boot + a - (boot + b)) with (a - b) by lia.
  apply u32_small; lia.
Qed.
