(* C16 — proofs about the model of the MQTT receive path (C16/Model.v). *)
From Coq Require Import List ZArith Lia Bool.
Import ListNotations.
From V Require Import Base.U32 Base.Bytes Base.Iface Gen.MqttConsts C16.Model.
Local Open Scope Z_scope.

(* ------------------------------------------------------------------------------------------ *)
(* facts about the generated constants (re-proved by computation whenever the translator output changes) *)
Record consts_facts : Prop := {
  cf_recvbuf_lo : 5 <= RECVBUF;
  cf_recvbuf_hi : RECVBUF <= 16384;
  cf_qsz : 0 < QSZ;
  cf_sendbuf : 0 < SENDBUF;
  cf_e_type : E_CONTROL_FORBIDDEN_TYPE <> 0;
  cf_e_flags : E_CONTROL_INVALID_FLAGS <> 0;
  cf_ct : CT_CONNECT = 1 /\ CT_CONNACK = 2 /\ CT_PUBLISH = 3 /\ CT_PUBACK = 4 /\ CT_PUBREC = 5 /\ CT_PUBREL = 6 /\
          CT_PUBCOMP = 7 /\ CT_SUBSCRIBE = 8 /\ CT_SUBACK = 9 /\ CT_UNSUBSCRIBE = 10 /\ CT_UNSUBACK = 11 /\
          CT_PINGREQ = 12 /\ CT_PINGRESP = 13 /\ CT_DISCONNECT = 14;
  cf_rule_publish : forall fl, rule_violation 3 fl = 0;
}.
Lemma consts_ok : consts_facts.
Proof.
  constructor; try (vm_compute; intuition congruence).
  intros fl. unfold rule_violation. replace (nthz TYPE_VALID 3) with 1 by reflexivity.
  replace (nthz MASK_FLAGS 3) with 0 by reflexivity. rewrite Z.land_0_r. reflexivity.
Qed.

Lemma nthz_app_l' (a b : list Z) i : 0 <= i < len a -> nthz (a ++ b) i = nthz a i.
Proof. apply nthz_app_l. Qed.
Lemma be16_app_l (a b : list Z) o : 0 <= o -> o + 2 <= len a -> be16 (a ++ b) o = be16 a o.
Proof. intros; unfold be16; rewrite !nthz_app_l by lia; reflexivity. Qed.

(* ------------------------------------------------------------------------------------------ *)
(* the fixed header is determined by the bytes that were needed to decode it *)
Lemma hfin_cases ct fl rl h : (exists e, hfin ct fl rl h = HErr e) \/ hfin ct fl rl h = HOk ct fl rl h.
Proof. unfold hfin. destruct (rule_violation ct fl =? 0); eauto. Qed.

Lemma hfin_ok ct fl rl h a b c d : hfin ct fl rl h = HOk a b c d -> a = ct /\ b = fl /\ c = rl /\ d = h.
Proof. unfold hfin. destruct (rule_violation ct fl =? 0); intros H; [|discriminate]. inversion H; auto. Qed.

Lemma header_shape b ct fl rl h : bytes_ok b -> unpack_header b = HOk ct fl rl h ->
  2 <= h <= 5 /\ h <= len b /\ 0 <= rl /\ 0 <= fl < 16.
Proof.
  intros OK. unfold unpack_header.
  assert (M : forall x, 0 <= x mod 128) by (intros; apply Z.mod_pos_bound; lia).
  pose proof (M (nthz b 1)); pose proof (M (nthz b 2)); pose proof (M (nthz b 3)); pose proof (M (nthz b 4)).
  pose proof (nthz_ok b 1 OK) as B1; pose proof (nthz_ok b 2 OK) as B2; pose proof (nthz_ok b 3 OK) as B3;
  pose proof (nthz_ok b 4 OK) as B4. unfold byte_ok in *.
  assert (F : 0 <= nthz b 0 mod 16 < 16) by (apply Z.mod_pos_bound; lia).
  destruct (len b =? 0) eqn:E0; [discriminate|].
  destruct (len b <=? 1) eqn:E1; [discriminate|]. apply Z.leb_gt in E1.
  destruct (nthz b 1 <? 128) eqn:X1.
  { intros Hq. apply hfin_ok in Hq. lia. }
  destruct (len b <=? 2) eqn:E2; [discriminate|]. apply Z.leb_gt in E2.
  destruct (nthz b 2 <? 128) eqn:X2.
  { intros Hq. apply hfin_ok in Hq. lia. }
  destruct (len b <=? 3) eqn:E3; [discriminate|]. apply Z.leb_gt in E3.
  destruct (nthz b 3 <? 128) eqn:X3.
  { intros Hq. apply hfin_ok in Hq. lia. }
  destruct (len b <=? 4) eqn:E4; [discriminate|]. apply Z.leb_gt in E4.
  destruct (nthz b 4 <? 128) eqn:X4; [|discriminate].
  intros Hq. apply hfin_ok in Hq. lia.
Qed.

(* prefix stability: once the header is decoded (or rejected), more bytes do not change the verdict *)
Lemma header_stable b x r : unpack_header b = r -> r <> HInc -> unpack_header (b ++ x) = r.
Proof.
  unfold unpack_header. rewrite len_app. pose proof (len_nonneg x) as Lx. pose proof (len_nonneg b) as Lb.
  destruct (len b =? 0) eqn:E0; [congruence|]. apply Z.eqb_neq in E0.
  replace (len b + len x =? 0) with false by (symmetry; apply Z.eqb_neq; lia).
  rewrite (nthz_app_l b x 0) by lia.
  destruct (len b <=? 1) eqn:E1; [congruence|]. apply Z.leb_gt in E1.
  replace (len b + len x <=? 1) with false by (symmetry; apply Z.leb_gt; lia).
  rewrite (nthz_app_l b x 1) by lia.
  destruct (nthz b 1 <? 128); [auto|].
  destruct (len b <=? 2) eqn:E2; [congruence|]. apply Z.leb_gt in E2.
  replace (len b + len x <=? 2) with false by (symmetry; apply Z.leb_gt; lia).
  rewrite (nthz_app_l b x 2) by lia.
  destruct (nthz b 2 <? 128); [auto|].
  destruct (len b <=? 3) eqn:E3; [congruence|]. apply Z.leb_gt in E3.
  replace (len b + len x <=? 3) with false by (symmetry; apply Z.leb_gt; lia).
  rewrite (nthz_app_l b x 3) by lia.
  destruct (nthz b 3 <? 128); [auto|].
  destruct (len b <=? 4) eqn:E4; [congruence|]. apply Z.leb_gt in E4.
  replace (len b + len x <=? 4) with false by (symmetry; apply Z.leb_gt; lia).
  rewrite (nthz_app_l b x 4) by lia.
  auto.
Qed.

(* with five bytes or more the header is never "incomplete" *)
Lemma header_inc_short b : unpack_header b = HInc -> len b < 5.
Proof.
  unfold unpack_header.
  destruct (len b =? 0) eqn:E0; [apply Z.eqb_eq in E0; lia|].
  destruct (len b <=? 1) eqn:E1; [apply Z.leb_le in E1; lia|].
  destruct (nthz b 1 <? 128); [destruct (hfin_cases (nthz b 0 / 16) (nthz b 0 mod 16) (nthz b 1) 2) as [[e H]|H]; rewrite H; discriminate|].
  destruct (len b <=? 2) eqn:E2; [apply Z.leb_le in E2; lia|].
  destruct (nthz b 2 <? 128); [match goal with |- hfin ?a ?b ?c ?d = _ -> _ => destruct (hfin_cases a b c d) as [[e H]|H]; rewrite H; discriminate end|].
  destruct (len b <=? 3) eqn:E3; [apply Z.leb_le in E3; lia|].
  destruct (nthz b 3 <? 128); [match goal with |- hfin ?a ?b ?c ?d = _ -> _ => destruct (hfin_cases a b c d) as [[e H]|H]; rewrite H; discriminate end|].
  destruct (len b <=? 4) eqn:E4; [apply Z.leb_le in E4; lia|].
  destruct (nthz b 4 <? 128); [match goal with |- hfin ?a ?b ?c ?d = _ -> _ => destruct (hfin_cases a b c d) as [[e H]|H]; rewrite H; discriminate end|discriminate].
Qed.

(* ------------------------------------------------------------------------------------------ *)
(* mqtt_unpack_response (repaired code) *)
Lemma be16_range l o : bytes_ok l -> 0 <= be16 l o < 65536.
Proof.
  intros H; unfold be16. pose proof (nthz_ok l o H); pose proof (nthz_ok l (o+1) H). unfold byte_ok in *; lia.
Qed.

Lemma unpack_publish_fixed b fl rl h :
  unpack_publish FIXED b fl rl h =
  (let dup := (fl / 8) mod 2 in let qos := (fl / 2) mod 4 in let retain := fl mod 2 in
   if qos =? 3 then UErr E_PUBLISH_FORBIDDEN_QOS else
   if rl <? 2 then UErr E_MALFORMED_RESPONSE else
   let tlen := be16 b h in
   let k := if 0 <? qos then 4 else 2 in
   if rl <? tlen + k then UErr E_MALFORMED_RESPONSE else
   let toff := h + 2 in
   let pid := if 0 <? qos then be16 b (toff + tlen) else 0 in
   let poff := toff + tlen + (k - 2) in
   let plen := u32 (rl - tlen - k) in
   UOk (RPublish dup qos retain toff tlen poff plen pid) (poff + plen)).
Proof. reflexivity. Qed.

Lemma unpack_publish_stable b x fl rl h : bytes_ok b -> 2 <= h -> h + rl <= len b ->
  unpack_publish FIXED (b ++ x) fl rl h = unpack_publish FIXED b fl rl h.
Proof.
  intros OK Hh Hl. rewrite !unpack_publish_fixed. cbv zeta.
  destruct ((fl / 2) mod 4 =? 3); [reflexivity|].
  destruct (rl <? 2) eqn:R2; [reflexivity|]. apply Z.ltb_ge in R2.
  rewrite (be16_app_l b x h) by lia.
  pose proof (be16_range b h OK) as T.
  destruct (0 <? (fl / 2) mod 4) eqn:Q.
  2:{ destruct (rl <? be16 b h + 2); reflexivity. }
  destruct (rl <? be16 b h + 4) eqn:R3; [reflexivity|]. apply Z.ltb_ge in R3.
  rewrite (be16_app_l b x (h + 2 + be16 b h)) by lia. reflexivity.
Qed.

Lemma unpack_stable b x u : bytes_ok b -> unpack FIXED b = u -> u <> UInc -> unpack FIXED (b ++ x) = u.
Proof.
  intros OK. unfold unpack. destruct (unpack_header b) as [|e|ct fl rl h] eqn:H.
  - congruence.
  - rewrite (header_stable b x _ H) by discriminate. auto.
  - rewrite (header_stable b x _ H) by discriminate.
    destruct (header_shape b ct fl rl h OK H) as (Hh & Hhl & Hrl & Hfl).
    pose proof (len_nonneg x) as Lx. rewrite len_app.
    destruct ((len b - h <? rl) || (RECVBUF <? h + rl)) eqn:C; [congruence|].
    apply orb_false_elim in C. destruct C as [C1 C2]. apply Z.ltb_ge in C1.
    replace (len b + len x - h <? rl) with false by (symmetry; apply Z.ltb_ge; lia). rewrite C2. cbn [orb].
    destruct (ct =? CT_CONNACK).
    { destruct (rl =? 2) eqn:R; cbn [negb]; [|auto]. apply Z.eqb_eq in R.
      rewrite (nthz_app_l b x h), (nthz_app_l b x (h + 1)) by lia. auto. }
    destruct (ct =? CT_PUBLISH).
    { rewrite unpack_publish_stable by (auto; lia). auto. }
    destruct ((ct =? CT_PUBACK) || (ct =? CT_PUBREC) || (ct =? CT_PUBREL) || (ct =? CT_PUBCOMP)).
    { destruct (rl =? 2) eqn:R; cbn [negb]; [|auto]. apply Z.eqb_eq in R. rewrite (be16_app_l b x h) by lia. auto. }
    destruct (ct =? CT_SUBACK).
    { destruct (rl <? 3) eqn:R; [auto|]. apply Z.ltb_ge in R.
      rewrite (be16_app_l b x h), (nthz_app_l b x (h + 2)) by lia. auto. }
    destruct (ct =? CT_UNSUBACK).
    { destruct (rl =? 2) eqn:R; cbn [negb]; [|auto]. apply Z.eqb_eq in R. rewrite (be16_app_l b x h) by lia. auto. }
    auto.
Qed.

(* a packet that does not fit the receive buffer stays "incomplete" however many bytes follow *)
Lemma unpack_stable_toosmall b x : bytes_ok b -> unpack FIXED b = UInc -> RECVBUF <= len b -> unpack FIXED (b ++ x) = UInc.
Proof.
  intros OK U L. pose proof consts_ok as CF. unfold unpack in *.
  destruct (unpack_header b) as [|e|ct fl rl h] eqn:H.
  - apply header_inc_short in H. pose proof (cf_recvbuf_lo CF). lia.
  - discriminate.
  - rewrite (header_stable b x _ H) by discriminate.
    destruct (header_shape b ct fl rl h OK H) as (Hh & Hhl & Hrl & Hfl).
    destruct ((len b - h <? rl) || (RECVBUF <? h + rl)) eqn:C.
    + apply orb_true_iff in C.
      replace ((len (b ++ x) - h <? rl) || (RECVBUF <? h + rl)) with true; [reflexivity|].
      symmetry. apply orb_true_iff. right. apply Z.ltb_lt. destruct C as [C|C]; [apply Z.ltb_lt in C|apply Z.ltb_lt in C]; lia.
    + exfalso. revert U.
      destruct (ct =? CT_CONNACK).
      { destruct (negb (rl =? 2)); [discriminate|]. destruct (negb _); [discriminate|]. destruct (5 <? _); discriminate. }
      destruct (ct =? CT_PUBLISH).
      { rewrite unpack_publish_fixed. cbv zeta. destruct (_ =? 3); [discriminate|]. destruct (rl <? 2); [discriminate|].
        destruct (rl <? _); discriminate. }
      destruct (_ || _ || _ || _). { destruct (negb _); discriminate. }
      destruct (ct =? CT_SUBACK). { destruct (rl <? 3); discriminate. }
      destruct (ct =? CT_UNSUBACK). { destruct (negb _); discriminate. }
      destruct (ct =? CT_PINGRESP). { destruct (_ && _); discriminate. }
      discriminate.
Qed.

(* shape of a successfully unpacked packet *)
Lemma unpack_consumed b r c : bytes_ok b -> unpack FIXED b = UOk r c -> 2 <= c <= len b /\ c <= RECVBUF.
Proof.
  intros OK. unfold unpack. destruct (unpack_header b) as [|e|ct fl rl h] eqn:H; try discriminate.
  destruct (header_shape b ct fl rl h OK H) as (Hh & Hhl & Hrl & Hfl).
  destruct ((len b - h <? rl) || (RECVBUF <? h + rl)) eqn:C; [discriminate|].
  apply orb_false_elim in C. destruct C as [C1 C2]. apply Z.ltb_ge in C1. apply Z.ltb_ge in C2.
  destruct (ct =? CT_CONNACK).
  { destruct (rl =? 2) eqn:R; cbn [negb]; [|discriminate]. apply Z.eqb_eq in R.
    destruct (negb _); [discriminate|]. destruct (5 <? _); [discriminate|]. intros Q; inversion Q; subst. lia. }
  destruct (ct =? CT_PUBLISH).
  { rewrite unpack_publish_fixed. cbv zeta. destruct (_ =? 3); [discriminate|].
    destruct (rl <? 2) eqn:R2; [discriminate|]. apply Z.ltb_ge in R2.
    pose proof (be16_range b h OK) as T.
    destruct (rl <? _) eqn:R3; [discriminate|]. apply Z.ltb_ge in R3.
    intros Q; inversion Q; subst. clear Q.
    set (k := if 0 <? (fl / 2) mod 4 then 4 else 2) in *.
    assert (k = 4 \/ k = 2) by (unfold k; destruct (0 <? _); auto).
    pose proof (cf_recvbuf_hi consts_ok). rewrite u32_small by lia. lia. }
  destruct (_ || _ || _ || _).
  { destruct (rl =? 2) eqn:R; cbn [negb]; [|discriminate]. apply Z.eqb_eq in R. intros Q; inversion Q; subst. lia. }
  destruct (ct =? CT_SUBACK).
  { destruct (rl <? 3) eqn:R; [discriminate|]. apply Z.ltb_ge in R. intros Q; inversion Q; subst. lia. }
  destruct (ct =? CT_UNSUBACK).
  { destruct (rl =? 2) eqn:R; cbn [negb]; [|discriminate]. apply Z.eqb_eq in R. intros Q; inversion Q; subst. lia. }
  destruct (ct =? CT_PINGRESP).
  { cbn [fx_pinglen FIXED andb]. destruct (rl =? 0) eqn:R; cbn [negb]; [|discriminate]. apply Z.eqb_eq in R.
    intros Q; inversion Q; subst. lia. }
  discriminate.
Qed.

(* ------------------------------------------------------------------------------------------ *)
(* the receive side never looks at the "already sent" bit of a queued message (except when the queue
   has to be compacted) *)
Definition strip (e : entry) : Z * Z * Z * bool := (ect e, epid e, esz e, eacked e).
Definition qeq (q1 q2 : list entry) : Prop := map strip q1 = map strip q2.

Lemma cons_inj {A} (a b : A) l m : a :: l = b :: m -> a = b /\ l = m.
Proof. intros H; inversion H; auto. Qed.
Lemma qeq_refl q : qeq q q. Proof. reflexivity. Qed.
Lemma qeq_sym a b : qeq a b -> qeq b a. Proof. unfold qeq; congruence. Qed.
Lemma qeq_trans a b c : qeq a b -> qeq b c -> qeq a c. Proof. unfold qeq; congruence. Qed.
Lemma qeq_len a b : qeq a b -> len a = len b.
Proof. unfold qeq, len; intros H. apply (f_equal (@length _)) in H. rewrite !map_length in H. lia. Qed.
Lemma qeq_used a b : qeq a b -> used a = used b.
Proof.
  unfold qeq. revert b; induction a as [|x a IH]; intros [|y b] H; try discriminate; [reflexivity|].
  cbn [map] in H. apply cons_inj in H. destruct H as [S T]. cbn [used fold_right]. fold (used a). fold (used b).
  rewrite (IH b) by assumption. unfold strip in S. inversion S. lia.
Qed.
Lemma qeq_currsz a b : qeq a b -> currsz a = currsz b.
Proof. intros H; unfold currsz. rewrite (qeq_len _ _ H), (qeq_used _ _ H). reflexivity. Qed.
Lemma qeq_app a b c d : qeq a b -> qeq c d -> qeq (a ++ c) (b ++ d).
Proof. unfold qeq; intros; rewrite !map_app; congruence. Qed.

Definition nf (ct : Z) (opid : option Z) : Prop := opid = None -> fire_and_forget ct = false.
Lemma matches_strip ct opid e1 e2 : nf ct opid -> strip e1 = strip e2 -> matches ct opid e1 = matches ct opid e2.
Proof.
  intros N S. unfold strip in S. inversion S as [[A B C D]]. unfold matches. rewrite A.
  destruct opid as [p|]; [rewrite B; reflexivity|].
  destruct (ect e2 =? ct) eqn:E; [|reflexivity]. apply Z.eqb_eq in E.
  unfold complete. rewrite A, E, (N eq_refl), !andb_false_r, !orb_false_r, D. reflexivity.
Qed.

Lemma ack_first_qeq p q1 q2 : qeq q1 q2 -> (forall e1 e2, strip e1 = strip e2 -> p e1 = p e2) ->
  match ack_first p q1, ack_first p q2 with
  | Some a, Some b => qeq a b | None, None => True | _, _ => False end.
Proof.
  intros Q P. revert q2 Q. induction q1 as [|x q1 IH]; intros [|y q2] Q; try discriminate; cbn [ack_first]; [exact I|].
  unfold qeq in Q. cbn [map] in Q. apply cons_inj in Q. destruct Q as [S T]. rewrite (P x y S).
  destruct (p y).
  - unfold qeq. cbn [map]. f_equal; [|assumption]. unfold strip, set_acked in *; cbn. congruence.
  - specialize (IH q2 T). destruct (ack_first p q1), (ack_first p q2); try contradiction; [|exact I].
    unfold qeq in *. cbn [map]. congruence.
Qed.
Lemma existsb_qeq p q1 q2 : qeq q1 q2 -> (forall e1 e2, strip e1 = strip e2 -> p e1 = p e2) -> existsb p q1 = existsb p q2.
Proof.
  intros Q P. revert q2 Q. induction q1 as [|x q1 IH]; intros [|y q2] Q; try discriminate; [reflexivity|].
  unfold qeq in Q. cbn [map] in Q. apply cons_inj in Q. destruct Q as [S T]. cbn [existsb]. rewrite (P x y S), (IH q2 T). reflexivity.
Qed.

Definition new_entry (ct pid sz : Z) : entry := {| ect := ct; epid := pid; esz := sz; esent := false; eacked := false |}.
Lemma try_pack_loose ct pid sz q r : try_pack ct pid sz q = (r, false) -> r = Some (q ++ [new_entry ct pid sz]) /\ sz <= currsz q.
Proof.
  unfold try_pack. destruct (sz <=? currsz q) eqn:E.
  - intros H; inversion H. apply Z.leb_le in E. auto.
  - destruct (sz <=? currsz (clean q)); discriminate.
Qed.
Lemma try_pack_tight_iff ct pid sz q : snd (try_pack ct pid sz q) = negb (sz <=? currsz q).
Proof. unfold try_pack. destruct (sz <=? currsz q); [reflexivity|]. destruct (sz <=? currsz (clean q)); reflexivity. Qed.
Lemma try_pack_fits ct pid sz q : sz <= currsz q -> try_pack ct pid sz q = (Some (q ++ [new_entry ct pid sz]), false).
Proof. intros H. unfold try_pack. apply Z.leb_le in H. rewrite H. reflexivity. Qed.

(* results of the packet switch on two queues that differ in "sent" bits only *)
Definition hrel (x y : hres4) : Prop :=
  match x, y with (a1, d1, e1, t1), (a2, d2, e2, t2) => t1 = t2 /\ (t1 = false -> qeq a1 a2 /\ d1 = d2 /\ e1 = e2) end.

Lemma try_pack_qeq ct pid sz q1 q2 : qeq q1 q2 ->
  match try_pack ct pid sz q1, try_pack ct pid sz q2 with
  | (r1, t1), (r2, t2) => t1 = t2 /\ (t1 = false -> exists a1 a2, r1 = Some a1 /\ r2 = Some a2 /\ qeq a1 a2) end.
Proof.
  intros Q. pose proof (try_pack_tight_iff ct pid sz q1) as T1. pose proof (try_pack_tight_iff ct pid sz q2) as T2.
  rewrite (qeq_currsz _ _ Q) in T1.
  destruct (try_pack ct pid sz q1) as [r1 t1] eqn:P1, (try_pack ct pid sz q2) as [r2 t2] eqn:P2. cbn [snd] in *.
  assert (E : t1 = t2) by congruence. clear T1 T2. split; [exact E|]. intros F. subst t1. symmetry in E. subst t2.
  apply try_pack_loose in P1. apply try_pack_loose in P2. destruct P1 as [-> _], P2 as [-> _].
  eexists _, _. repeat split. apply qeq_app; [assumption|reflexivity].
Qed.

Lemma ff_connect : fire_and_forget CT_CONNECT = false. Proof. reflexivity. Qed.
Lemma ff_pingreq : fire_and_forget CT_PINGREQ = false. Proof. reflexivity. Qed.

Ltac ack_cases Q ct opid :=
  let A := fresh "A" in
  pose proof (ack_first_qeq (matches ct opid) _ _ Q) as A;
  match type of A with (?P -> _) =>
    let HP := fresh in assert (HP : P) by (intros ? ? ?; apply matches_strip; [intro; try discriminate; auto using ff_connect, ff_pingreq | assumption]);
    specialize (A HP); clear HP end;
  match type of A with match ?x, ?y with _ => _ end => destruct x, y; try contradiction end.

Lemma hrel_simple a1 a2 d e : qeq a1 a2 -> hrel (a1, d, e, false) (a2, d, e, false).
Proof. intros; split; auto. Qed.

Lemma handle_qeq r q1 q2 : qeq q1 q2 -> hrel (handle r q1) (handle r q2).
Proof.
  intros Q. destruct r as [code|dup qos retain toff tlen poff plen pid|ct pid|pid code0|pid|]; cbn [handle].
  - ack_cases Q CT_CONNECT (@None Z); [|apply hrel_simple; assumption].
    destruct (code =? CONNACK_ACCEPTED); [apply hrel_simple; assumption|].
    destruct (code =? CONNACK_ID_REJECTED); apply hrel_simple; assumption.
  - destruct (qos =? 1).
    { pose proof (try_pack_qeq CT_PUBACK pid 4 q1 q2 Q) as T.
      destruct (try_pack CT_PUBACK pid 4 q1) as [r1 t1], (try_pack CT_PUBACK pid 4 q2) as [r2 t2].
      destruct T as [-> T]. destruct t2.
      - destruct r1, r2; split; auto; discriminate.
      - destruct (T eq_refl) as (a1 & a2 & -> & -> & QQ). apply hrel_simple; assumption. }
    destruct (qos =? 2); [|apply hrel_simple; assumption].
    rewrite (existsb_qeq (matches CT_PUBREC (Some pid)) q1 q2 Q)
      by (intros; apply matches_strip; [intro; discriminate|assumption]).
    destruct (existsb _ q2); [apply hrel_simple; assumption|].
    pose proof (try_pack_qeq CT_PUBREC pid 4 q1 q2 Q) as T.
    destruct (try_pack CT_PUBREC pid 4 q1) as [r1 t1], (try_pack CT_PUBREC pid 4 q2) as [r2 t2].
    destruct T as [-> T]. destruct t2.
    + destruct r1, r2; split; auto; discriminate.
    + destruct (T eq_refl) as (a1 & a2 & -> & -> & QQ). apply hrel_simple; assumption.
  - destruct (ct =? CT_PUBACK).
    { ack_cases Q CT_PUBLISH (Some pid); apply hrel_simple; assumption. }
    destruct (ct =? CT_PUBREC).
    { rewrite (existsb_qeq (matches CT_PUBREL (Some pid)) q1 q2 Q)
        by (intros; apply matches_strip; [intro; discriminate|assumption]).
      destruct (existsb _ q2); [apply hrel_simple; assumption|].
      ack_cases Q CT_PUBLISH (Some pid); [|apply hrel_simple; assumption].
      pose proof (try_pack_qeq CT_PUBREL pid 4 _ _ A) as T.
      destruct (try_pack CT_PUBREL pid 4 l) as [r1 t1], (try_pack CT_PUBREL pid 4 l0) as [r2 t2].
      destruct T as [-> T]. destruct t2.
      - destruct r1, r2; split; auto; discriminate.
      - destruct (T eq_refl) as (a1 & a2 & -> & -> & QQ). apply hrel_simple; assumption. }
    destruct (ct =? CT_PUBREL).
    { ack_cases Q CT_PUBREC (Some pid); [|apply hrel_simple; assumption].
      pose proof (try_pack_qeq CT_PUBCOMP pid 4 _ _ A) as T.
      destruct (try_pack CT_PUBCOMP pid 4 l) as [r1 t1], (try_pack CT_PUBCOMP pid 4 l0) as [r2 t2].
      destruct T as [-> T]. destruct t2.
      - destruct r1, r2; split; auto; discriminate.
      - destruct (T eq_refl) as (a1 & a2 & -> & -> & QQ). apply hrel_simple; assumption. }
    ack_cases Q CT_PUBREL (Some pid); apply hrel_simple; assumption.
  - ack_cases Q CT_SUBSCRIBE (Some pid); [|apply hrel_simple; assumption].
    destruct (code0 =? SUBACK_FAILURE); apply hrel_simple; assumption.
  - ack_cases Q CT_UNSUBSCRIBE (Some pid); apply hrel_simple; assumption.
  - ack_cases Q CT_PINGREQ (@None Z); apply hrel_simple; assumption.
Qed.
