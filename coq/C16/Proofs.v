(* C16 — proofs about the model of the MQTT receive path (C16/Model.v). *)
From Coq Require Import List ZArith Lia Bool.
Import ListNotations.
From V Require Import Base.U32 Base.Bytes Base.Iface Gen.MqttConsts C16.Model.
Local Open Scope Z_scope.

(* ------------------------------------------------------------------------------------------ *)
(* facts about the generated constants (re-proved by computation whenever the translator output changes) *)
Record consts_facts : Prop := {
  cf_recvbuf_lo : 5 <= RECVBUF;
  cf_recvbuf_hi : RECVBUF <= 16384;
  cf_qsz : 0 < QSZ;
  cf_sendbuf : 0 < SENDBUF;
  cf_e_type : E_CONTROL_FORBIDDEN_TYPE <> 0;
  cf_e_flags : E_CONTROL_INVALID_FLAGS <> 0;
  cf_ct : CT_CONNECT = 1 /\ CT_CONNACK = 2 /\ CT_PUBLISH = 3 /\ CT_PUBACK = 4 /\ CT_PUBREC = 5 /\ CT_PUBREL = 6 /\
          CT_PUBCOMP = 7 /\ CT_SUBSCRIBE = 8 /\ CT_SUBACK = 9 /\ CT_UNSUBSCRIBE = 10 /\ CT_UNSUBACK = 11 /\
          CT_PINGREQ = 12 /\ CT_PINGRESP = 13 /\ CT_DISCONNECT = 14;
  cf_rule_publish : forall fl, rule_violation 3 fl = 0;
}.
Lemma consts_ok : consts_facts.
Proof.
  constructor; try (vm_compute; intuition congruence).
  intros fl. unfold rule_violation. replace (nthz TYPE_VALID 3) with 1 by reflexivity.
  replace (nthz MASK_FLAGS 3) with 0 by reflexivity. rewrite Z.land_0_r. reflexivity.
Qed.

Lemma nthz_app_l' (a b : list Z) i : 0 <= i < len a -> nthz (a ++ b) i = nthz a i.
Proof. apply nthz_app_l. Qed.
Lemma be16_app_l (a b : list Z) o : 0 <= o -> o + 2 <= len a -> be16 (a ++ b) o = be16 a o.
Proof. intros; unfold be16; rewrite !nthz_app_l by lia; reflexivity. Qed.

(* ------------------------------------------------------------------------------------------ *)
(* the fixed header is determined by the bytes that were needed to decode it *)
Lemma hfin_cases ct fl rl h : (exists e, hfin ct fl rl h = HErr e) \/ hfin ct fl rl h = HOk ct fl rl h.
Proof. unfold hfin. destruct (rule_violation ct fl =? 0); eauto. Qed.

Lemma hfin_ok ct fl rl h a b c d : hfin ct fl rl h = HOk a b c d -> a = ct /\ b = fl /\ c = rl /\ d = h.
Proof. unfold hfin. destruct (rule_violation ct fl =? 0); intros H; [|discriminate]. inversion H; auto. Qed.

Lemma header_shape b ct fl rl h : bytes_ok b -> unpack_header b = HOk ct fl rl h ->
  2 <= h <= 5 /\ h <= len b /\ 0 <= rl /\ 0 <= fl < 16.
Proof.
  intros OK. unfold unpack_header.
  assert (M : forall x, 0 <= x mod 128) by (intros; apply Z.mod_pos_bound; lia).
  pose proof (M (nthz b 1)); pose proof (M (nthz b 2)); pose proof (M (nthz b 3)); pose proof (M (nthz b 4)).
  pose proof (nthz_ok b 1 OK) as B1; pose proof (nthz_ok b 2 OK) as B2; pose proof (nthz_ok b 3 OK) as B3;
  pose proof (nthz_ok b 4 OK) as B4. unfold byte_ok in *.
  assert (F : 0 <= nthz b 0 mod 16 < 16) by (apply Z.mod_pos_bound; lia).
  destruct (len b =? 0) eqn:E0; [discriminate|].
  destruct (len b <=? 1) eqn:E1; [discriminate|]. apply Z.leb_gt in E1.
  destruct (nthz b 1 <? 128) eqn:X1.
  { intros Hq. apply hfin_ok in Hq. lia. }
  destruct (len b <=? 2) eqn:E2; [discriminate|]. apply Z.leb_gt in E2.
  destruct (nthz b 2 <? 128) eqn:X2.
  { intros Hq. apply hfin_ok in Hq. lia. }
  destruct (len b <=? 3) eqn:E3; [discriminate|]. apply Z.leb_gt in E3.
  destruct (nthz b 3 <? 128) eqn:X3.
  { intros Hq. apply hfin_ok in Hq. lia. }
  destruct (len b <=? 4) eqn:E4; [discriminate|]. apply Z.leb_gt in E4.
  destruct (nthz b 4 <? 128) eqn:X4; [|discriminate].
  intros Hq. apply hfin_ok in Hq. lia.
Qed.

(* prefix stability: once the header is decoded (or rejected), more bytes do not change the verdict *)
Lemma header_stable b x r : unpack_header b = r -> r <> HInc -> unpack_header (b ++ x) = r.
Proof.
  unfold unpack_header. rewrite len_app. pose proof (len_nonneg x) as Lx. pose proof (len_nonneg b) as Lb.
  destruct (len b =? 0) eqn:E0; [congruence|]. apply Z.eqb_neq in E0.
  replace (len b + len x =? 0) with false by (symmetry; apply Z.eqb_neq; lia).
  rewrite (nthz_app_l b x 0) by lia.
  destruct (len b <=? 1) eqn:E1; [congruence|]. apply Z.leb_gt in E1.
  replace (len b + len x <=? 1) with false by (symmetry; apply Z.leb_gt; lia).
  rewrite (nthz_app_l b x 1) by lia.
  destruct (nthz b 1 <? 128); [auto|].
  destruct (len b <=? 2) eqn:E2; [congruence|]. apply Z.leb_gt in E2.
  replace (len b + len x <=? 2) with false by (symmetry; apply Z.leb_gt; lia).
  rewrite (nthz_app_l b x 2) by lia.
  destruct (nthz b 2 <? 128); [auto|].
  destruct (len b <=? 3) eqn:E3; [congruence|]. apply Z.leb_gt in E3.
  replace (len b + len x <=? 3) with false by (symmetry; apply Z.leb_gt; lia).
  rewrite (nthz_app_l b x 3) by lia.
  destruct (nthz b 3 <? 128); [auto|].
  destruct (len b <=? 4) eqn:E4; [congruence|]. apply Z.leb_gt in E4.
  replace (len b + len x <=? 4) with false by (symmetry; apply Z.leb_gt; lia).
  rewrite (nthz_app_l b x 4) by lia.
  auto.
Qed.

(* with five bytes or more the header is never "incomplete" *)
Lemma header_inc_short b : unpack_header b = HInc -> len b < 5.
Proof.
  unfold unpack_header.
  destruct (len b =? 0) eqn:E0; [apply Z.eqb_eq in E0; lia|].
  destruct (len b <=? 1) eqn:E1; [apply Z.leb_le in E1; lia|].
  destruct (nthz b 1 <? 128); [destruct (hfin_cases (nthz b 0 / 16) (nthz b 0 mod 16) (nthz b 1) 2) as [[e H]|H]; rewrite H; discriminate|].
  destruct (len b <=? 2) eqn:E2; [apply Z.leb_le in E2; lia|].
  destruct (nthz b 2 <? 128); [match goal with |- hfin ?a ?b ?c ?d = _ -> _ => destruct (hfin_cases a b c d) as [[e H]|H]; rewrite H; discriminate end|].
  destruct (len b <=? 3) eqn:E3; [apply Z.leb_le in E3; lia|].
  destruct (nthz b 3 <? 128); [match goal with |- hfin ?a ?b ?c ?d = _ -> _ => destruct (hfin_cases a b c d) as [[e H]|H]; rewrite H; discriminate end|].
  destruct (len b <=? 4) eqn:E4; [apply Z.leb_le in E4; lia|].
  destruct (nthz b 4 <? 128); [match goal with |- hfin ?a ?b ?c ?d = _ -> _ => destruct (hfin_cases a b c d) as [[e H]|H]; rewrite H; discriminate end|discriminate].
Qed.

(* ------------------------------------------------------------------------------------------ *)
(* mqtt_unpack_response (repaired code) *)
Lemma be16_range l o : bytes_ok l -> 0 <= be16 l o < 65536.
Proof.
  intros H; unfold be16. pose proof (nthz_ok l o H); pose proof (nthz_ok l (o+1) H). unfold byte_ok in *; lia.
Qed.

Lemma unpack_publish_fixed b fl rl h :
  unpack_publish FIXED b fl rl h =
  (let dup := (fl / 8) mod 2 in let qos := (fl / 2) mod 4 in let retain := fl mod 2 in
   if qos =? 3 then UErr E_PUBLISH_FORBIDDEN_QOS else
   if rl <? 2 then UErr E_MALFORMED_RESPONSE else
   let tlen := be16 b h in
   let k := if 0 <? qos then 4 else 2 in
   if rl <? tlen + k then UErr E_MALFORMED_RESPONSE else
   let toff := h + 2 in
   let pid := if 0 <? qos then be16 b (toff + tlen) else 0 in
   let poff := toff + tlen + (k - 2) in
   let plen := u32 (rl - tlen - k) in
   UOk (RPublish dup qos retain toff tlen poff plen pid) (poff + plen)).
Proof. reflexivity. Qed.

Lemma unpack_publish_stable b x fl rl h : bytes_ok b -> 2 <= h -> h + rl <= len b ->
  unpack_publish FIXED (b ++ x) fl rl h = unpack_publish FIXED b fl rl h.
Proof.
  intros OK Hh Hl. rewrite !unpack_publish_fixed. cbv zeta.
  destruct ((fl / 2) mod 4 =? 3); [reflexivity|].
  destruct (rl <? 2) eqn:R2; [reflexivity|]. apply Z.ltb_ge in R2.
  rewrite (be16_app_l b x h) by lia.
  pose proof (be16_range b h OK) as T.
  destruct (0 <? (fl / 2) mod 4) eqn:Q.
  2:{ destruct (rl <? be16 b h + 2); reflexivity. }
  destruct (rl <? be16 b h + 4) eqn:R3; [reflexivity|]. apply Z.ltb_ge in R3.
  rewrite (be16_app_l b x (h + 2 + be16 b h)) by lia. reflexivity.
Qed.

Lemma unpack_stable b x u : bytes_ok b -> unpack FIXED b = u -> u <> UInc -> unpack FIXED (b ++ x) = u.
Proof.
  intros OK. unfold unpack. destruct (unpack_header b) as [|e|ct fl rl h] eqn:H.
  - congruence.
  - rewrite (header_stable b x _ H) by discriminate. auto.
  - rewrite (header_stable b x _ H) by discriminate.
    destruct (header_shape b ct fl rl h OK H) as (Hh & Hhl & Hrl & Hfl).
    pose proof (len_nonneg x) as Lx. rewrite len_app.
    destruct ((len b - h <? rl) || (RECVBUF <? h + rl)) eqn:C; [congruence|].
    apply orb_false_elim in C. destruct C as [C1 C2]. apply Z.ltb_ge in C1.
    replace (len b + len x - h <? rl) with false by (symmetry; apply Z.ltb_ge; lia). rewrite C2. cbn [orb].
    destruct (ct =? CT_CONNACK).
    { destruct (rl =? 2) eqn:R; cbn [negb]; [|auto]. apply Z.eqb_eq in R.
      rewrite (nthz_app_l b x h), (nthz_app_l b x (h + 1)) by lia. auto. }
    destruct (ct =? CT_PUBLISH).
    { rewrite unpack_publish_stable by (auto; lia). auto. }
    destruct ((ct =? CT_PUBACK) || (ct =? CT_PUBREC) || (ct =? CT_PUBREL) || (ct =? CT_PUBCOMP)).
    { destruct (rl =? 2) eqn:R; cbn [negb]; [|auto]. apply Z.eqb_eq in R. rewrite (be16_app_l b x h) by lia. auto. }
    destruct (ct =? CT_SUBACK).
    { destruct (rl <? 3) eqn:R; [auto|]. apply Z.ltb_ge in R.
      rewrite (be16_app_l b x h), (nthz_app_l b x (h + 2)) by lia. auto. }
    destruct (ct =? CT_UNSUBACK).
    { destruct (rl =? 2) eqn:R; cbn [negb]; [|auto]. apply Z.eqb_eq in R. rewrite (be16_app_l b x h) by lia. auto. }
    auto.
Qed.

(* a packet that does not fit the receive buffer stays "incomplete" however many bytes follow *)
Lemma unpack_stable_toosmall b x : bytes_ok b -> unpack FIXED b = UInc -> RECVBUF <= len b -> unpack FIXED (b ++ x) = UInc.
Proof.
  intros OK U L. pose proof consts_ok as CF. unfold unpack in *.
  destruct (unpack_header b) as [|e|ct fl rl h] eqn:H.
  - apply header_inc_short in H. pose proof (cf_recvbuf_lo CF). lia.
  - discriminate.
  - rewrite (header_stable b x _ H) by discriminate.
    destruct (header_shape b ct fl rl h OK H) as (Hh & Hhl & Hrl & Hfl).
    destruct ((len b - h <? rl) || (RECVBUF <? h + rl)) eqn:C.
    + apply orb_true_iff in C.
      replace ((len (b ++ x) - h <? rl) || (RECVBUF <? h + rl)) with true; [reflexivity|].
      symmetry. apply orb_true_iff. right. apply Z.ltb_lt. destruct C as [C|C]; [apply Z.ltb_lt in C|apply Z.ltb_lt in C]; lia.
    + exfalso. revert U.
      destruct (ct =? CT_CONNACK).
      { destruct (negb (rl =? 2)); [discriminate|]. destruct (negb _); [discriminate|]. destruct (5 <? _); discriminate. }
      destruct (ct =? CT_PUBLISH).
      { rewrite unpack_publish_fixed. cbv zeta. destruct (_ =? 3); [discriminate|]. destruct (rl <? 2); [discriminate|].
        destruct (rl <? _); discriminate. }
      destruct (_ || _ || _ || _). { destruct (negb _); discriminate. }
      destruct (ct =? CT_SUBACK). { destruct (rl <? 3); discriminate. }
      destruct (ct =? CT_UNSUBACK). { destruct (negb _); discriminate. }
      destruct (ct =? CT_PINGRESP). { destruct (_ && _); discriminate. }
      discriminate.
Qed.

(* shape of a successfully unpacked packet *)
Lemma unpack_consumed b r c : bytes_ok b -> unpack FIXED b = UOk r c -> 2 <= c <= len b /\ c <= RECVBUF.
Proof.
  intros OK. unfold unpack. destruct (unpack_header b) as [|e|ct fl rl h] eqn:H; try discriminate.
  destruct (header_shape b ct fl rl h OK H) as (Hh & Hhl & Hrl & Hfl).
  destruct ((len b - h <? rl) || (RECVBUF <? h + rl)) eqn:C; [discriminate|].
  apply orb_false_elim in C. destruct C as [C1 C2]. apply Z.ltb_ge in C1. apply Z.ltb_ge in C2.
  destruct (ct =? CT_CONNACK).
  { destruct (rl =? 2) eqn:R; cbn [negb]; [|discriminate]. apply Z.eqb_eq in R.
    destruct (negb _); [discriminate|]. destruct (5 <? _); [discriminate|]. intros Q; inversion Q; subst. lia. }
  destruct (ct =? CT_PUBLISH).
  { rewrite unpack_publish_fixed. cbv zeta. destruct (_ =? 3); [discriminate|].
    destruct (rl <? 2) eqn:R2; [discriminate|]. apply Z.ltb_ge in R2.
    pose proof (be16_range b h OK) as T.
    destruct (rl <? _) eqn:R3; [discriminate|]. apply Z.ltb_ge in R3.
    intros Q; inversion Q; subst. clear Q.
    set (k := if 0 <? (fl / 2) mod 4 then 4 else 2) in *.
    assert (k = 4 \/ k = 2) by (unfold k; destruct (0 <? _); auto).
    pose proof (cf_recvbuf_hi consts_ok). rewrite u32_small by lia. lia. }
  destruct (_ || _ || _ || _).
  { destruct (rl =? 2) eqn:R; cbn [negb]; [|discriminate]. apply Z.eqb_eq in R. intros Q; inversion Q; subst. lia. }
  destruct (ct =? CT_SUBACK).
  { destruct (rl <? 3) eqn:R; [discriminate|]. apply Z.ltb_ge in R. intros Q; inversion Q; subst. lia. }
  destruct (ct =? CT_UNSUBACK).
  { destruct (rl =? 2) eqn:R; cbn [negb]; [|discriminate]. apply Z.eqb_eq in R. intros Q; inversion Q; subst. lia. }
  destruct (ct =? CT_PINGRESP).
  { cbn [fx_pinglen FIXED andb]. destruct (rl =? 0) eqn:R; cbn [negb]; [|discriminate]. apply Z.eqb_eq in R.
    intros Q; inversion Q; subst. lia. }
  discriminate.
Qed.
