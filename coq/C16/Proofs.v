(* C16 — proofs about the model of the MQTT receive path (C16/Model.v). *)
From Coq Require Import List ZArith Lia Bool.
Import ListNotations.
From V Require Import Base.U32 Base.Bytes Base.Iface Gen.MqttConsts C16.Model.
Local Open Scope Z_scope.

(* ------------------------------------------------------------------------------------------ *)
(* facts about the generated constants (re-proved by computation whenever the translator output changes) *)
Record consts_facts : Prop := {
  cf_recvbuf_lo : 5 <= RECVBUF;
  cf_recvbuf_hi : RECVBUF <= 16384;
  cf_qsz : 0 < QSZ;
  cf_sendbuf : 0 < SENDBUF;
  cf_e_type : E_CONTROL_FORBIDDEN_TYPE <> 0;
  cf_e_flags : E_CONTROL_INVALID_FLAGS <> 0;
  cf_ct : CT_CONNECT = 1 /\ CT_CONNACK = 2 /\ CT_PUBLISH = 3 /\ CT_PUBACK = 4 /\ CT_PUBREC = 5 /\ CT_PUBREL = 6 /\
          CT_PUBCOMP = 7 /\ CT_SUBSCRIBE = 8 /\ CT_SUBACK = 9 /\ CT_UNSUBSCRIBE = 10 /\ CT_UNSUBACK = 11 /\
          CT_PINGREQ = 12 /\ CT_PINGRESP = 13 /\ CT_DISCONNECT = 14;
  cf_rule_publish : forall fl, rule_violation 3 fl = 0;
  (* behavioural pins (gen/grp_c16.py runs the real unpackers): the guards the model writes as literals *)
  cf_pins : ACCEPTED_RL = [[2; 2]; [3; 2; 3; 4; 5]; [4; 2]; [5; 2]; [6; 2]; [7; 2]; [9; 3; 4; 5]; [11; 2]; [13; 0]] /\
            RL_BYTES_MAX = 4 /\ CONNACK_CODE_MAX = 5 /\ CONNACK_FLAG_MAX = 1 /\
            QOS3_RESULT = E_PUBLISH_FORBIDDEN_QOS /\ TOPIC_OVERRUN_RESULT = E_MALFORMED_RESPONSE;
}.
Lemma consts_ok : consts_facts.
Proof.
  constructor; try (vm_compute; intuition congruence).
  intros fl. unfold rule_violation. replace (nthz TYPE_VALID 3) with 1 by reflexivity.
  replace (nthz MASK_FLAGS 3) with 0 by reflexivity. rewrite Z.land_0_r. reflexivity.
Qed.

Lemma nthz_app_l' (a b : list Z) i : 0 <= i < len a -> nthz (a ++ b) i = nthz a i.
Proof. apply nthz_app_l. Qed.
Lemma be16_app_l (a b : list Z) o : 0 <= o -> o + 2 <= len a -> be16 (a ++ b) o = be16 a o.
Proof. intros; unfold be16; rewrite !nthz_app_l by lia; reflexivity. Qed.

(* ------------------------------------------------------------------------------------------ *)
(* the fixed header is determined by the bytes that were needed to decode it *)
Lemma hfin_cases ct fl rl h : (exists e, hfin ct fl rl h = HErr e) \/ hfin ct fl rl h = HOk ct fl rl h.
Proof. unfold hfin. destruct (rule_violation ct fl =? 0); eauto. Qed.

Lemma hfin_ok ct fl rl h a b c d : hfin ct fl rl h = HOk a b c d -> a = ct /\ b = fl /\ c = rl /\ d = h.
Proof. unfold hfin. destruct (rule_violation ct fl =? 0); intros H; [|discriminate]. inversion H; auto. Qed.

Lemma header_shape b ct fl rl h : bytes_ok b -> unpack_header b = HOk ct fl rl h ->
  2 <= h <= 5 /\ h <= len b /\ 0 <= rl /\ 0 <= fl < 16.
Proof.
  intros OK. unfold unpack_header.
  assert (M : forall x, 0 <= x mod 128) by (intros; apply Z.mod_pos_bound; lia).
  pose proof (M (nthz b 1)); pose proof (M (nthz b 2)); pose proof (M (nthz b 3)); pose proof (M (nthz b 4)).
  pose proof (nthz_ok b 1 OK) as B1; pose proof (nthz_ok b 2 OK) as B2; pose proof (nthz_ok b 3 OK) as B3;
  pose proof (nthz_ok b 4 OK) as B4. unfold byte_ok in *.
  assert (F : 0 <= nthz b 0 mod 16 < 16) by (apply Z.mod_pos_bound; lia).
  destruct (len b =? 0) eqn:E0; [discriminate|].
  destruct (len b <=? 1) eqn:E1; [discriminate|]. apply Z.leb_gt in E1.
  destruct (nthz b 1 <? 128) eqn:X1.
  { intros Hq. apply hfin_ok in Hq. lia. }
  destruct (len b <=? 2) eqn:E2; [discriminate|]. apply Z.leb_gt in E2.
  destruct (nthz b 2 <? 128) eqn:X2.
  { intros Hq. apply hfin_ok in Hq. lia. }
  destruct (len b <=? 3) eqn:E3; [discriminate|]. apply Z.leb_gt in E3.
  destruct (nthz b 3 <? 128) eqn:X3.
  { intros Hq. apply hfin_ok in Hq. lia. }
  destruct (len b <=? 4) eqn:E4; [discriminate|]. apply Z.leb_gt in E4.
  destruct (nthz b 4 <? 128) eqn:X4; [|discriminate].
  intros Hq. apply hfin_ok in Hq. lia.
Qed.

(* prefix stability: once the header is decoded (or rejected), more bytes do not change the verdict *)
Lemma header_stable b x r : unpack_header b = r -> r <> HInc -> unpack_header (b ++ x) = r.
Proof.
  unfold unpack_header. rewrite len_app. pose proof (len_nonneg x) as Lx. pose proof (len_nonneg b) as Lb.
  destruct (len b =? 0) eqn:E0; [congruence|]. apply Z.eqb_neq in E0.
  replace (len b + len x =? 0) with false by (symmetry; apply Z.eqb_neq; lia).
  rewrite (nthz_app_l b x 0) by lia.
  destruct (len b <=? 1) eqn:E1; [congruence|]. apply Z.leb_gt in E1.
  replace (len b + len x <=? 1) with false by (symmetry; apply Z.leb_gt; lia).
  rewrite (nthz_app_l b x 1) by lia.
  destruct (nthz b 1 <? 128); [auto|].
  destruct (len b <=? 2) eqn:E2; [congruence|]. apply Z.leb_gt in E2.
  replace (len b + len x <=? 2) with false by (symmetry; apply Z.leb_gt; lia).
  rewrite (nthz_app_l b x 2) by lia.
  destruct (nthz b 2 <? 128); [auto|].
  destruct (len b <=? 3) eqn:E3; [congruence|]. apply Z.leb_gt in E3.
  replace (len b + len x <=? 3) with false by (symmetry; apply Z.leb_gt; lia).
  rewrite (nthz_app_l b x 3) by lia.
  destruct (nthz b 3 <? 128); [auto|].
  destruct (len b <=? 4) eqn:E4; [congruence|]. apply Z.leb_gt in E4.
  replace (len b + len x <=? 4) with false by (symmetry; apply Z.leb_gt; lia).
  rewrite (nthz_app_l b x 4) by lia.
  auto.
Qed.

(* with five bytes or more the header is never "incomplete" *)
Lemma header_inc_short b : unpack_header b = HInc -> len b < 5.
Proof.
  unfold unpack_header.
  destruct (len b =? 0) eqn:E0; [apply Z.eqb_eq in E0; lia|].
  destruct (len b <=? 1) eqn:E1; [apply Z.leb_le in E1; lia|].
  destruct (nthz b 1 <? 128); [destruct (hfin_cases (nthz b 0 / 16) (nthz b 0 mod 16) (nthz b 1) 2) as [[e H]|H]; rewrite H; discriminate|].
  destruct (len b <=? 2) eqn:E2; [apply Z.leb_le in E2; lia|].
  destruct (nthz b 2 <? 128); [match goal with |- hfin ?a ?b ?c ?d = _ -> _ => destruct (hfin_cases a b c d) as [[e H]|H]; rewrite H; discriminate end|].
  destruct (len b <=? 3) eqn:E3; [apply Z.leb_le in E3; lia|].
  destruct (nthz b 3 <? 128); [match goal with |- hfin ?a ?b ?c ?d = _ -> _ => destruct (hfin_cases a b c d) as [[e H]|H]; rewrite H; discriminate end|].
  destruct (len b <=? 4) eqn:E4; [apply Z.leb_le in E4; lia|].
  destruct (nthz b 4 <? 128); [match goal with |- hfin ?a ?b ?c ?d = _ -> _ => destruct (hfin_cases a b c d) as [[e H]|H]; rewrite H; discriminate end|discriminate].
Qed.

(* ------------------------------------------------------------------------------------------ *)
(* mqtt_unpack_response (repaired code) *)
Lemma be16_range l o : bytes_ok l -> 0 <= be16 l o < 65536.
Proof.
  intros H; unfold be16. pose proof (nthz_ok l o H); pose proof (nthz_ok l (o+1) H). unfold byte_ok in *; lia.
Qed.

Lemma unpack_publish_fixed b fl rl h :
  unpack_publish FIXED b fl rl h =
  (let dup := (fl / 8) mod 2 in let qos := (fl / 2) mod 4 in let retain := fl mod 2 in
   if qos =? 3 then UErr E_PUBLISH_FORBIDDEN_QOS else
   if rl <? 2 then UErr E_MALFORMED_RESPONSE else
   let tlen := be16 b h in
   let k := if 0 <? qos then 4 else 2 in
   if rl <? tlen + k then UErr E_MALFORMED_RESPONSE else
   let toff := h + 2 in
   let pid := if 0 <? qos then be16 b (toff + tlen) else 0 in
   let poff := toff + tlen + (k - 2) in
   let plen := u32 (rl - tlen - k) in
   UOk (RPublish dup qos retain toff tlen poff plen pid) (poff + plen)).
Proof. reflexivity. Qed.

Lemma unpack_publish_stable b x fl rl h : bytes_ok b -> 2 <= h -> h + rl <= len b ->
  unpack_publish FIXED (b ++ x) fl rl h = unpack_publish FIXED b fl rl h.
Proof.
  intros OK Hh Hl. rewrite !unpack_publish_fixed. cbv zeta.
  destruct ((fl / 2) mod 4 =? 3); [reflexivity|].
  destruct (rl <? 2) eqn:R2; [reflexivity|]. apply Z.ltb_ge in R2.
  rewrite (be16_app_l b x h) by lia.
  pose proof (be16_range b h OK) as T.
  destruct (0 <? (fl / 2) mod 4) eqn:Q.
  2:{ destruct (rl <? be16 b h + 2); reflexivity. }
  destruct (rl <? be16 b h + 4) eqn:R3; [reflexivity|]. apply Z.ltb_ge in R3.
  rewrite (be16_app_l b x (h + 2 + be16 b h)) by lia. reflexivity.
Qed.

Lemma unpack_stable b x u : bytes_ok b -> unpack FIXED b = u -> u <> UInc -> unpack FIXED (b ++ x) = u.
Proof.
  intros OK. unfold unpack. destruct (unpack_header b) as [|e|ct fl rl h] eqn:H.
  - congruence.
  - rewrite (header_stable b x _ H) by discriminate. auto.
  - rewrite (header_stable b x _ H) by discriminate.
    destruct (header_shape b ct fl rl h OK H) as (Hh & Hhl & Hrl & Hfl).
    pose proof (len_nonneg x) as Lx. rewrite len_app.
    destruct ((len b - h <? rl) || (RECVBUF <? h + rl)) eqn:C; [congruence|].
    apply orb_false_elim in C. destruct C as [C1 C2]. apply Z.ltb_ge in C1.
    replace (len b + len x - h <? rl) with false by (symmetry; apply Z.ltb_ge; lia). rewrite C2. cbn [orb].
    destruct (ct =? CT_CONNACK).
    { destruct (rl =? 2) eqn:R; cbn [negb]; [|auto]. apply Z.eqb_eq in R.
      rewrite (nthz_app_l b x h), (nthz_app_l b x (h + 1)) by lia. auto. }
    destruct (ct =? CT_PUBLISH).
    { rewrite unpack_publish_stable by (auto; lia). auto. }
    destruct ((ct =? CT_PUBACK) || (ct =? CT_PUBREC) || (ct =? CT_PUBREL) || (ct =? CT_PUBCOMP)).
    { destruct (rl =? 2) eqn:R; cbn [negb]; [|auto]. apply Z.eqb_eq in R. rewrite (be16_app_l b x h) by lia. auto. }
    destruct (ct =? CT_SUBACK).
    { destruct (rl <? 3) eqn:R; [auto|]. apply Z.ltb_ge in R.
      rewrite (be16_app_l b x h), (nthz_app_l b x (h + 2)) by lia. auto. }
    destruct (ct =? CT_UNSUBACK).
    { destruct (rl =? 2) eqn:R; cbn [negb]; [|auto]. apply Z.eqb_eq in R. rewrite (be16_app_l b x h) by lia. auto. }
    auto.
Qed.

(* a packet that does not fit the receive buffer stays "incomplete" however many bytes follow *)
Lemma unpack_stable_toosmall b x : bytes_ok b -> unpack FIXED b = UInc -> RECVBUF <= len b -> unpack FIXED (b ++ x) = UInc.
Proof.
  intros OK U L. pose proof consts_ok as CF. unfold unpack in *.
  destruct (unpack_header b) as [|e|ct fl rl h] eqn:H.
  - apply header_inc_short in H. pose proof (cf_recvbuf_lo CF). lia.
  - discriminate.
  - rewrite (header_stable b x _ H) by discriminate.
    destruct (header_shape b ct fl rl h OK H) as (Hh & Hhl & Hrl & Hfl).
    destruct ((len b - h <? rl) || (RECVBUF <? h + rl)) eqn:C.
    + apply orb_true_iff in C.
      replace ((len (b ++ x) - h <? rl) || (RECVBUF <? h + rl)) with true; [reflexivity|].
      symmetry. apply orb_true_iff. right. apply Z.ltb_lt. destruct C as [C|C]; [apply Z.ltb_lt in C|apply Z.ltb_lt in C]; lia.
    + exfalso. revert U.
      destruct (ct =? CT_CONNACK).
      { destruct (negb (rl =? 2)); [discriminate|]. destruct (negb _); [discriminate|]. destruct (5 <? _); discriminate. }
      destruct (ct =? CT_PUBLISH).
      { rewrite unpack_publish_fixed. cbv zeta. destruct (_ =? 3); [discriminate|]. destruct (rl <? 2); [discriminate|].
        destruct (rl <? _); discriminate. }
      destruct (_ || _ || _ || _). { destruct (negb _); discriminate. }
      destruct (ct =? CT_SUBACK). { destruct (rl <? 3); discriminate. }
      destruct (ct =? CT_UNSUBACK). { destruct (negb _); discriminate. }
      destruct (ct =? CT_PINGRESP). { destruct (_ && _); discriminate. }
      discriminate.
Qed.

(* shape of a successfully unpacked packet *)
Lemma unpack_consumed b r c : bytes_ok b -> unpack FIXED b = UOk r c -> 2 <= c <= len b /\ c <= RECVBUF.
Proof.
  intros OK. unfold unpack. destruct (unpack_header b) as [|e|ct fl rl h] eqn:H; try discriminate.
  destruct (header_shape b ct fl rl h OK H) as (Hh & Hhl & Hrl & Hfl).
  destruct ((len b - h <? rl) || (RECVBUF <? h + rl)) eqn:C; [discriminate|].
  apply orb_false_elim in C. destruct C as [C1 C2]. apply Z.ltb_ge in C1. apply Z.ltb_ge in C2.
  destruct (ct =? CT_CONNACK).
  { destruct (rl =? 2) eqn:R; cbn [negb]; [|discriminate]. apply Z.eqb_eq in R.
    destruct (negb _); [discriminate|]. destruct (5 <? _); [discriminate|]. intros Q; inversion Q; subst. lia. }
  destruct (ct =? CT_PUBLISH).
  { rewrite unpack_publish_fixed. cbv zeta. destruct (_ =? 3); [discriminate|].
    destruct (rl <? 2) eqn:R2; [discriminate|]. apply Z.ltb_ge in R2.
    pose proof (be16_range b h OK) as T.
    destruct (rl <? _) eqn:R3; [discriminate|]. apply Z.ltb_ge in R3.
    intros Q; inversion Q; subst. clear Q.
    set (k := if 0 <? (fl / 2) mod 4 then 4 else 2) in *.
    assert (k = 4 \/ k = 2) by (unfold k; destruct (0 <? _); auto).
    pose proof (cf_recvbuf_hi consts_ok). rewrite u32_small by lia. lia. }
  destruct (_ || _ || _ || _).
  { destruct (rl =? 2) eqn:R; cbn [negb]; [|discriminate]. apply Z.eqb_eq in R. intros Q; inversion Q; subst. lia. }
  destruct (ct =? CT_SUBACK).
  { destruct (rl <? 3) eqn:R; [discriminate|]. apply Z.ltb_ge in R. intros Q; inversion Q; subst. lia. }
  destruct (ct =? CT_UNSUBACK).
  { destruct (rl =? 2) eqn:R; cbn [negb]; [|discriminate]. apply Z.eqb_eq in R. intros Q; inversion Q; subst. lia. }
  destruct (ct =? CT_PINGRESP).
  { cbn [fx_pinglen FIXED andb]. destruct (rl =? 0) eqn:R; cbn [negb]; [|discriminate]. apply Z.eqb_eq in R.
    intros Q; inversion Q; subst. lia. }
  discriminate.
Qed.

(* ------------------------------------------------------------------------------------------ *)
(* the receive side never looks at the "already sent" bit of a queued message (except when the queue
   has to be compacted) *)
Definition strip (e : entry) : Z * Z * Z * bool := (ect e, epid e, esz e, eacked e).
Definition qeq (q1 q2 : list entry) : Prop := map strip q1 = map strip q2.

Lemma cons_inj {A} (a b : A) l m : a :: l = b :: m -> a = b /\ l = m.
Proof. intros H; inversion H; auto. Qed.
Lemma qeq_refl q : qeq q q. Proof. reflexivity. Qed.
Lemma qeq_sym a b : qeq a b -> qeq b a. Proof. unfold qeq; congruence. Qed.
Lemma qeq_trans a b c : qeq a b -> qeq b c -> qeq a c. Proof. unfold qeq; congruence. Qed.
Lemma qeq_len a b : qeq a b -> len a = len b.
Proof. unfold qeq, len; intros H. apply (f_equal (@length _)) in H. rewrite !map_length in H. lia. Qed.
Lemma qeq_used a b : qeq a b -> used a = used b.
Proof.
  unfold qeq. revert b; induction a as [|x a IH]; intros [|y b] H; try discriminate; [reflexivity|].
  cbn [map] in H. apply cons_inj in H. destruct H as [S T]. cbn [used fold_right]. fold (used a). fold (used b).
  rewrite (IH b) by assumption. unfold strip in S. inversion S. lia.
Qed.
Lemma qeq_currsz a b : qeq a b -> currsz a = currsz b.
Proof. intros H; unfold currsz. rewrite (qeq_len _ _ H), (qeq_used _ _ H). reflexivity. Qed.
Lemma qeq_app a b c d : qeq a b -> qeq c d -> qeq (a ++ c) (b ++ d).
Proof. unfold qeq; intros; rewrite !map_app; congruence. Qed.

Definition nf (ct : Z) (opid : option Z) : Prop := opid = None -> fire_and_forget ct = false.
Lemma matches_strip ct opid e1 e2 : nf ct opid -> strip e1 = strip e2 -> matches ct opid e1 = matches ct opid e2.
Proof.
  intros N S. unfold strip in S. inversion S as [[A B C D]]. unfold matches. rewrite A.
  destruct opid as [p|]; [rewrite B; reflexivity|].
  destruct (ect e2 =? ct) eqn:E; [|reflexivity]. apply Z.eqb_eq in E.
  unfold complete. rewrite A, E, (N eq_refl), !andb_false_r, !orb_false_r, D. reflexivity.
Qed.

Lemma ack_first_qeq p q1 q2 : qeq q1 q2 -> (forall e1 e2, strip e1 = strip e2 -> p e1 = p e2) ->
  match ack_first p q1, ack_first p q2 with
  | Some a, Some b => qeq a b | None, None => True | _, _ => False end.
Proof.
  intros Q P. revert q2 Q. induction q1 as [|x q1 IH]; intros [|y q2] Q; try discriminate; cbn [ack_first]; [exact I|].
  unfold qeq in Q. cbn [map] in Q. apply cons_inj in Q. destruct Q as [S T]. rewrite (P x y S).
  destruct (p y).
  - unfold qeq. cbn [map]. f_equal; [|assumption]. unfold strip, set_acked in *; cbn. congruence.
  - specialize (IH q2 T). destruct (ack_first p q1), (ack_first p q2); try contradiction; [|exact I].
    unfold qeq in *. cbn [map]. congruence.
Qed.
Lemma existsb_qeq p q1 q2 : qeq q1 q2 -> (forall e1 e2, strip e1 = strip e2 -> p e1 = p e2) -> existsb p q1 = existsb p q2.
Proof.
  intros Q P. revert q2 Q. induction q1 as [|x q1 IH]; intros [|y q2] Q; try discriminate; [reflexivity|].
  unfold qeq in Q. cbn [map] in Q. apply cons_inj in Q. destruct Q as [S T]. cbn [existsb]. rewrite (P x y S), (IH q2 T). reflexivity.
Qed.

Definition new_entry (ct pid sz : Z) : entry := {| ect := ct; epid := pid; esz := sz; esent := false; eacked := false |}.
Lemma try_pack_loose ct pid sz q r : try_pack ct pid sz q = (r, false) -> r = Some (q ++ [new_entry ct pid sz]) /\ sz <= currsz q.
Proof.
  unfold try_pack. destruct (sz <=? currsz q) eqn:E.
  - intros H; inversion H. apply Z.leb_le in E. auto.
  - destruct (sz <=? currsz (clean q)); discriminate.
Qed.
Lemma try_pack_tight_iff ct pid sz q : snd (try_pack ct pid sz q) = negb (sz <=? currsz q).
Proof. unfold try_pack. destruct (sz <=? currsz q); [reflexivity|]. destruct (sz <=? currsz (clean q)); reflexivity. Qed.
Lemma try_pack_fits ct pid sz q : sz <= currsz q -> try_pack ct pid sz q = (Some (q ++ [new_entry ct pid sz]), false).
Proof. intros H. unfold try_pack. apply Z.leb_le in H. rewrite H. reflexivity. Qed.

(* results of the packet switch on two queues that differ in "sent" bits only *)
Definition hrel (x y : hres4) : Prop :=
  match x, y with (a1, d1, e1, t1), (a2, d2, e2, t2) => t1 = t2 /\ (t1 = false -> qeq a1 a2 /\ d1 = d2 /\ e1 = e2) end.

Lemma try_pack_qeq ct pid sz q1 q2 : qeq q1 q2 ->
  match try_pack ct pid sz q1, try_pack ct pid sz q2 with
  | (r1, t1), (r2, t2) => t1 = t2 /\ (t1 = false -> exists a1 a2, r1 = Some a1 /\ r2 = Some a2 /\ qeq a1 a2) end.
Proof.
  intros Q. pose proof (try_pack_tight_iff ct pid sz q1) as T1. pose proof (try_pack_tight_iff ct pid sz q2) as T2.
  rewrite (qeq_currsz _ _ Q) in T1.
  destruct (try_pack ct pid sz q1) as [r1 t1] eqn:P1, (try_pack ct pid sz q2) as [r2 t2] eqn:P2. cbn [snd] in *.
  assert (E : t1 = t2) by congruence. clear T1 T2. split; [exact E|]. intros F. rewrite <- E in P2. rewrite F in P1, P2. clear E F.
  apply try_pack_loose in P1. apply try_pack_loose in P2. destruct P1 as [-> _], P2 as [-> _].
  eexists _, _. repeat split. apply qeq_app; [assumption|reflexivity].
Qed.

Lemma ff_connect : fire_and_forget CT_CONNECT = false. Proof. reflexivity. Qed.
Lemma ff_pingreq : fire_and_forget CT_PINGREQ = false. Proof. reflexivity. Qed.

Ltac ack_cases Q ct opid qa qb :=
  let A := fresh "A" in
  pose proof (ack_first_qeq (matches ct opid) qa qb Q) as A;
  match type of A with (?P -> _) =>
    let HP := fresh in assert (HP : P) by (intros ? ? ?; apply matches_strip; [intro; try discriminate; auto using ff_connect, ff_pingreq | assumption]);
    specialize (A HP); clear HP end;
  destruct (ack_first (matches ct opid) qa), (ack_first (matches ct opid) qb); try contradiction.

Lemma hrel_simple a1 a2 d e : qeq a1 a2 -> hrel (a1, d, e, false) (a2, d, e, false).
Proof. intros; split; auto. Qed.

Lemma handle_qeq r q1 q2 : qeq q1 q2 -> hrel (handle r q1) (handle r q2).
Proof.
  intros Q. destruct r as [code|dup qos retain toff tlen poff plen pid|ct pid|pid code0|pid|]; cbn [handle].
  - ack_cases Q CT_CONNECT (@None Z) q1 q2; [|apply hrel_simple; assumption].
    destruct (code =? CONNACK_ACCEPTED); [apply hrel_simple; assumption|].
    destruct (code =? CONNACK_ID_REJECTED); apply hrel_simple; assumption.
  - destruct (qos =? 1).
    { pose proof (try_pack_qeq CT_PUBACK pid 4 q1 q2 Q) as T.
      destruct (try_pack CT_PUBACK pid 4 q1) as [r1 t1], (try_pack CT_PUBACK pid 4 q2) as [r2 t2].
      destruct T as [-> T]. destruct t2.
      - destruct r1, r2; split; auto; discriminate.
      - destruct (T eq_refl) as (a1 & a2 & -> & -> & QQ). apply hrel_simple; assumption. }
    destruct (qos =? 2); [|apply hrel_simple; assumption].
    rewrite (existsb_qeq (matches CT_PUBREC (Some pid)) q1 q2 Q)
      by (intros; apply matches_strip; [intro; discriminate|assumption]).
    destruct (existsb _ q2); [apply hrel_simple; assumption|].
    pose proof (try_pack_qeq CT_PUBREC pid 4 q1 q2 Q) as T.
    destruct (try_pack CT_PUBREC pid 4 q1) as [r1 t1], (try_pack CT_PUBREC pid 4 q2) as [r2 t2].
    destruct T as [-> T]. destruct t2.
    + destruct r1, r2; split; auto; discriminate.
    + destruct (T eq_refl) as (a1 & a2 & -> & -> & QQ). apply hrel_simple; assumption.
  - destruct (ct =? CT_PUBACK).
    { ack_cases Q CT_PUBLISH (Some pid) q1 q2; apply hrel_simple; assumption. }
    destruct (ct =? CT_PUBREC).
    { rewrite (existsb_qeq (matches CT_PUBREL (Some pid)) q1 q2 Q)
        by (intros; apply matches_strip; [intro; discriminate|assumption]).
      destruct (existsb _ q2); [apply hrel_simple; assumption|].
      ack_cases Q CT_PUBLISH (Some pid) q1 q2; [|apply hrel_simple; assumption].
      pose proof (try_pack_qeq CT_PUBREL pid 4 _ _ A) as T.
      destruct (try_pack CT_PUBREL pid 4 l) as [r1 t1], (try_pack CT_PUBREL pid 4 l0) as [r2 t2].
      destruct T as [-> T]. destruct t2.
      - destruct r1, r2; split; auto; discriminate.
      - destruct (T eq_refl) as (a1 & a2 & -> & -> & QQ). apply hrel_simple; assumption. }
    destruct (ct =? CT_PUBREL).
    { ack_cases Q CT_PUBREC (Some pid) q1 q2; [|apply hrel_simple; assumption].
      pose proof (try_pack_qeq CT_PUBCOMP pid 4 _ _ A) as T.
      destruct (try_pack CT_PUBCOMP pid 4 l) as [r1 t1], (try_pack CT_PUBCOMP pid 4 l0) as [r2 t2].
      destruct T as [-> T]. destruct t2.
      - destruct r1, r2; split; auto; discriminate.
      - destruct (T eq_refl) as (a1 & a2 & -> & -> & QQ). apply hrel_simple; assumption. }
    ack_cases Q CT_PUBREL (Some pid) q1 q2; apply hrel_simple; assumption.
  - ack_cases Q CT_SUBSCRIBE (Some pid) q1 q2; [|apply hrel_simple; assumption].
    destruct (code0 =? SUBACK_FAILURE); apply hrel_simple; assumption.
  - ack_cases Q CT_UNSUBSCRIBE (Some pid) q1 q2; apply hrel_simple; assumption.
  - ack_cases Q CT_PINGREQ (@None Z) q1 q2; apply hrel_simple; assumption.
Qed.

(* ------------------------------------------------------------------------------------------ *)
(* slices handed to the publish callback *)
Lemma unpack_publish_slices b d q rt toff tlen poff plen pid c : bytes_ok b ->
  unpack FIXED b = UOk (RPublish d q rt toff tlen poff plen pid) c ->
  2 <= toff /\ 0 <= tlen /\ toff + tlen <= poff /\ 0 <= plen /\ poff + plen = c /\ c <= len b /\
  0 <= q <= 2 /\ (q = 0 -> poff = toff + tlen) /\ (0 < q -> poff = toff + tlen + 2 /\ pid = be16 b (toff + tlen)).
Proof.
  intros OK. unfold unpack. destruct (unpack_header b) as [|e|ct fl rl h] eqn:H; try discriminate.
  destruct (header_shape b ct fl rl h OK H) as (Hh & Hhl & Hrl & Hfl).
  destruct ((len b - h <? rl) || (RECVBUF <? h + rl)) eqn:C; [discriminate|].
  apply orb_false_elim in C. destruct C as [C1 C2]. apply Z.ltb_ge in C1. apply Z.ltb_ge in C2.
  destruct (ct =? CT_CONNACK).
  { destruct (negb _); [discriminate|]. destruct (negb _); [discriminate|]. destruct (5 <? _); discriminate. }
  destruct (ct =? CT_PUBLISH).
  2:{ destruct (_ || _ || _ || _). { destruct (negb _); discriminate. }
      destruct (ct =? CT_SUBACK). { destruct (rl <? 3); discriminate. }
      destruct (ct =? CT_UNSUBACK). { destruct (negb _); discriminate. }
      destruct (ct =? CT_PINGRESP). { destruct (_ && _); discriminate. }
      discriminate. }
  rewrite unpack_publish_fixed. cbv zeta.
  assert (Q4 : 0 <= (fl / 2) mod 4 < 4) by (apply Z.mod_pos_bound; lia).
  destruct ((fl / 2) mod 4 =? 3) eqn:Q3; [discriminate|]. apply Z.eqb_neq in Q3.
  destruct (rl <? 2) eqn:R2; [discriminate|]. apply Z.ltb_ge in R2.
  pose proof (be16_range b h OK) as T. pose proof (cf_recvbuf_hi consts_ok) as RH.
  destruct (0 <? (fl / 2) mod 4) eqn:Q0.
  - apply Z.ltb_lt in Q0. destruct (rl <? be16 b h + 4) eqn:R3; [discriminate|]. apply Z.ltb_ge in R3.
    intros E; inversion E; subst; clear E. rewrite u32_small by lia. repeat split; try lia.
  - apply Z.ltb_ge in Q0. destruct (rl <? be16 b h + 2) eqn:R3; [discriminate|]. apply Z.ltb_ge in R3.
    intros E; inversion E; subst; clear E. rewrite u32_small by lia. repeat split; try lia.
Qed.

Lemma slice_inside b off n : 0 <= off -> 0 <= n -> off + n <= len b -> slice b off n = take n (drop off b).
Proof. intros. unfold slice. f_equal. lia. Qed.
Lemma slice_app b x off n : 0 <= off -> 0 <= n -> off + n <= len b -> slice (b ++ x) off n = slice b off n.
Proof.
  intros. rewrite !slice_inside by (rewrite ?len_app; pose proof (len_nonneg x); lia).
  rewrite drop_app_le by lia. apply take_app_le. rewrite len_drop by lia. lia.
Qed.

Lemma rx_of_app a b : rx_of (a ++ b) = rx_of a ++ rx_of b.
Proof. induction a as [|o a IH]; [reflexivity|]. destruct o; cbn [app rx_of]; rewrite ?IH; reflexivity. Qed.

Lemma msg_of_app b x r c : bytes_ok b -> unpack FIXED b = UOk r c -> rx_of (msg_of (b ++ x) r) = rx_of (msg_of b r).
Proof.
  intros OK U. destruct r; try reflexivity. cbn [msg_of rx_of].
  destruct (unpack_publish_slices _ _ _ _ _ _ _ _ _ _ OK U) as (A & B & C & D & E & F & _).
  rewrite !slice_app by lia. reflexivity.
Qed.

(* ------------------------------------------------------------------------------------------ *)
(* the packet loop *)
Lemma length_drop_lt (b : list Z) c : 1 <= c <= len b -> (length (drop c b) < length b)%nat.
Proof. intros. pose proof (len_drop c b ltac:(lia)) as L. unfold len in *. lia. Qed.

Lemma drain_S k fx q b : drain (S k) fx q b =
    match unpack fx b with
    | UInc => {| d_q := q; d_rest := b; d_moved := []; d_out := [];
                 d_stop := if RECVBUF <=? len b then Failed E_RECV_BUFFER_TOO_SMALL else Wait; d_tight := false |}
    | UErr e => {| d_q := q; d_rest := b; d_moved := []; d_out := []; d_stop := Failed e; d_tight := false |}
    | UOk r c =>
      match handle r q with
      | (q', dl, oe, t) =>
        let o := if dl then msg_of b r else [] in
        if len b <? c then
          {| d_q := q'; d_rest := b; d_moved := []; d_out := o; d_stop := Crashed; d_tight := t |}
        else
        match oe with
        | Some e => {| d_q := q'; d_rest := drop c b; d_moved := drop (len b - c) b; d_out := o; d_stop := Failed e; d_tight := t |}
        | None =>
          let d := drain k fx q' (drop c b) in
          {| d_q := d_q d; d_rest := d_rest d; d_moved := d_moved d ++ drop (len b - c) b;
             d_out := o ++ d_out d; d_stop := d_stop d; d_tight := t || d_tight d |}
        end
      end
    end.
Proof. reflexivity. Qed.

Lemma drain_fuel f1 : forall f2 q b, bytes_ok b -> (length b < f1)%nat -> (length b < f2)%nat ->
  drain f1 FIXED q b = drain f2 FIXED q b.
Proof.
  induction f1 as [|k1 IH]; intros f2 q b OK L1 L2; [lia|]. destruct f2 as [|k2]; [lia|]. cbn [drain].
  destruct (unpack FIXED b) as [|e|r c] eqn:U; try reflexivity.
  destruct (handle r q) as [[[q' dl] oe] t].
  destruct (unpack_consumed b r c OK U) as [C1 C2].
  destruct (len b <? c); [reflexivity|]. destruct oe; [reflexivity|].
  pose proof (length_drop_lt b c ltac:(lia)).
  rewrite (IH k2 q' (drop c b)) by (try apply bytes_ok_drop; auto; lia). reflexivity.
Qed.

Lemma drain_qeq f : forall q1 q2 b, qeq q1 q2 ->
  let d1 := drain f FIXED q1 b in let d2 := drain f FIXED q2 b in
  d_tight d1 = d_tight d2 /\
  (d_tight d1 = false -> qeq (d_q d1) (d_q d2) /\ d_rest d1 = d_rest d2 /\ d_out d1 = d_out d2 /\ d_stop d1 = d_stop d2 /\ d_moved d1 = d_moved d2).
Proof.
  induction f as [|k IH]; intros q1 q2 b Q; cbn [drain].
  - cbn. auto 10.
  - destruct (unpack FIXED b) as [|e|r c] eqn:U; cbn; [auto 10|auto 10|].
    pose proof (handle_qeq r q1 q2 Q) as HR. unfold hrel in HR.
    destruct (handle r q1) as [[[a1 dl1] e1] t1], (handle r q2) as [[[a2 dl2] e2] t2]. destruct HR as [-> HR].
    destruct t2.
    + (* compacted: both flagged *)
      destruct (len b <? c); cbn; [split; [reflexivity|discriminate]|].
      destruct e1, e2; cbn; split; try reflexivity; discriminate.
    + destruct (HR eq_refl) as (QQ & -> & ->). clear HR.
      destruct (len b <? c); cbn; [auto 10|].
      destruct e2; cbn; [auto 10|].
      specialize (IH a1 a2 (drop c b) QQ). cbv zeta in IH. destruct IH as [T IH]. split; [exact T|].
      intros F. destruct (IH F) as (A & B & C & D & E). rewrite B, C, D, E. auto.
Qed.

Definition continues (s : stop) : bool := match s with Wait => true | _ => false end.

Lemma drain_app f : forall q b x f', bytes_ok b -> bytes_ok x -> (length b < f)%nat -> (length (b ++ x) < f')%nat ->
  let d1 := drain f FIXED q b in
  let d := drain f' FIXED q (b ++ x) in
  if continues (d_stop d1) then
    let d2 := drain (S (length (d_rest d1 ++ x))) FIXED (d_q d1) (d_rest d1 ++ x) in
    d_q d = d_q d2 /\ d_rest d = d_rest d2 /\ rx_of (d_out d) = rx_of (d_out d1) ++ rx_of (d_out d2) /\
    d_stop d = d_stop d2 /\ d_tight d = d_tight d1 || d_tight d2
  else d_q d = d_q d1 /\ rx_of (d_out d) = rx_of (d_out d1) /\ d_stop d = d_stop d1 /\ d_tight d = d_tight d1.
Proof.
  induction f as [|k IH]; intros q b x f' OKb OKx L L'; [lia|]. destruct f' as [|k']; [lia|].
  cbv zeta. rewrite (drain_S k FIXED q b). destruct (unpack FIXED b) as [|e|r c] eqn:U.
  - (* incomplete *)
    destruct (RECVBUF <=? len b) eqn:TS; cbn [d_stop continues].
    + apply Z.leb_le in TS. rewrite drain_S, (unpack_stable_toosmall b x OKb U TS).
      replace (RECVBUF <=? len (b ++ x)) with true by (symmetry; apply Z.leb_le; rewrite len_app; pose proof (len_nonneg x); lia).
      cbn. auto.
    + cbn [d_rest d_q d_out d_tight rx_of app orb].
      rewrite (drain_fuel (S k') (S (length (b ++ x))) q (b ++ x)) by (try apply bytes_ok_app; auto; lia).
      auto.
  - rewrite drain_S, (unpack_stable b x _ OKb U) by discriminate. cbn. auto.
  - rewrite (drain_S k'), (unpack_stable b x _ OKb U) by discriminate.
    destruct (unpack_consumed b r c OKb U) as [C1 C2].
    destruct (handle r q) as [[[q' dl] oe] t]. cbv zeta.
    replace (len b <? c) with false by (symmetry; apply Z.ltb_ge; lia).
    replace (len (b ++ x) <? c) with false by (symmetry; apply Z.ltb_ge; rewrite len_app; pose proof (len_nonneg x); lia).
    assert (MO : rx_of (if dl then msg_of (b ++ x) r else []) = rx_of (if dl then msg_of b r else []))
      by (destruct dl; [apply (msg_of_app b x r c OKb U)|reflexivity]).
    destruct oe as [e|].
    + cbn. auto.
    + rewrite (drop_app_le c b x) by lia.
      pose proof (length_drop_lt b c ltac:(lia)) as LD.
      assert (LD' : (length (drop c b ++ x) < k')%nat).
      { rewrite app_length in *. lia. }
      specialize (IH q' (drop c b) x k' (bytes_ok_drop c b OKb) OKx ltac:(lia) LD'). cbv zeta in IH.
      cbn [d_stop d_q d_rest d_out d_tight].
      destruct (continues (d_stop (drain k FIXED q' (drop c b)))).
      * destruct IH as (A & B & C & D & E). rewrite A, B, D, E, !rx_of_app, C, MO, app_assoc, orb_assoc. auto.
      * destruct IH as (A & C & D & E). rewrite A, D, E, !rx_of_app, C, MO. auto.
Qed.

Lemma drain_rest f : forall q b, bytes_ok b -> (length b < f)%nat ->
  let d := drain f FIXED q b in
  bytes_ok (d_rest d) /\ len (d_rest d) <= len b /\ d_stop d <> Crashed /\
  (d_stop d = Wait -> len (d_rest d) < RECVBUF /\ unpack FIXED (d_rest d) = UInc) /\
  len (d_rest d) + len (d_moved d) = len b.
Proof.
  induction f as [|k IH]; intros q b OK L; [lia|]. cbv zeta. rewrite drain_S.
  destruct (unpack FIXED b) as [|e|r c] eqn:U.
  - cbn [d_rest d_stop d_moved]. rewrite len_nil. repeat split; auto; try lia.
    + destruct (RECVBUF <=? len b); discriminate.
    + destruct (RECVBUF <=? len b) eqn:E; [discriminate|]. apply Z.leb_gt in E. lia.
  - cbn [d_rest d_stop d_moved]. rewrite len_nil. repeat split; auto; try lia; discriminate.
  - destruct (unpack_consumed b r c OK U) as [C1 C2].
    destruct (handle r q) as [[[q' dl] oe] t]. cbv zeta.
    replace (len b <? c) with false by (symmetry; apply Z.ltb_ge; lia).
    destruct oe as [e|].
    + cbn [d_rest d_stop d_moved]. rewrite !len_drop by lia. repeat split; try apply bytes_ok_drop; auto; try lia; discriminate.
    + pose proof (length_drop_lt b c ltac:(lia)) as LD.
      specialize (IH q' (drop c b) (bytes_ok_drop c b OK) ltac:(lia)). cbv zeta in IH.
      destruct IH as (A & B & C & D & E). cbn [d_rest d_stop d_moved].
      rewrite len_drop in B, E by lia. rewrite len_app, len_drop by lia.
      split; [auto|]. split; [lia|]. split; [auto|]. split; [exact D|]. lia.
Qed.

(* ------------------------------------------------------------------------------------------ *)
(* mqtt_sync and the receive callback *)
Lemma rx_of_sent l : rx_of (map sent_out l) = [].
Proof. induction l as [|e l IH]; [reflexivity|]. cbn [map rx_of]. unfold sent_out at 1. destruct (_ && _); exact IH. Qed.
Lemma send_qeq q : qeq (fst (send q)) q.
Proof.
  unfold send, qeq; cbn [fst]. rewrite map_map. apply map_ext. intros e. destruct (unsent e); reflexivity.
Qed.

Lemma sync_spec s : bytes_ok (buf s) ->
  let d := drain (S (length (buf s))) FIXED (mq s) (buf s) in
  let '(s', o) := sync FIXED s in
  rx_of o = rx_of (d_out d) ++ rx_of_stop (d_stop d) /\ buf s' = d_rest d /\ qeq (mq s') (d_q d) /\
  halted s' = negb (continues (d_stop d)) /\ stale s' = d_moved d ++ stale s.
Proof.
  intros OK. cbv zeta. unfold sync.
  destruct (d_stop (drain (S (length (buf s))) FIXED (mq s) (buf s))) eqn:ST.
  - pose proof (send_qeq (d_q (drain (S (length (buf s))) FIXED (mq s) (buf s)))) as SQ.
    destruct (send _) as [q' so] eqn:SE. cbn [fst] in SQ. cbn [buf mq halted stale continues negb rx_of_stop].
    unfold send in SE. inversion SE; subst. rewrite rx_of_app, rx_of_sent. auto.
  - cbn [buf mq halted stale continues negb rx_of_stop]. rewrite rx_of_app. cbn [rx_of]. auto using qeq_refl.
  - cbn [buf mq halted stale continues negb rx_of_stop]. rewrite rx_of_app. cbn [rx_of]. auto using qeq_refl.
Qed.

(* ------------------------------------------------------------------------------------------ *)
(* ledger of what goes to the wire: every message of the queue is sent at most once, in queue order *)
Lemma send_all_sent q : forallb (fun e => negb (unsent e)) (fst (send q)) = true.
Proof.
  unfold send; cbn [fst]. apply forallb_forall. intros e H. apply in_map_iff in H. destruct H as (x & <- & _).
  destruct (unsent x) eqn:U; [|rewrite U; reflexivity]. unfold unsent, set_sent in *. cbn. rewrite andb_false_r. reflexivity.
Qed.
Definition core (e : entry) : Z * Z * bool := (ect e, epid e, esent e).
Definition slog (q : list entry) : list out := map sent_out (filter esent q).
Definition is_sent (o : out) : bool := match o with Sent _ _ => true | _ => false end.
Definition sents (o : list out) : list out := filter is_sent o.
Definition all_sent (q : list entry) : Prop := forallb (fun e => negb (unsent e)) q = true.
Definition rel1 (x y : entry) : Prop := core x = core y /\ (eacked x = true -> eacked y = true).
(* drain-level: old entries keep type, id and "sent" bit; new ones are appended unsent *)
Definition grows (q q' : list entry) : Prop :=
  exists a nw, q' = a ++ nw /\ Forall2 rel1 q a /\ Forall (fun e => esent e = false) nw.
(* run-level *)
Definition ledger (q q' : list entry) (o : list out) : Prop :=
  all_sent q' /\ exists a nw, q' = a ++ nw /\ map core a = map core q /\ slog nw = sents o.

Lemma rel1_refl q : Forall2 rel1 q q.
Proof. induction q; constructor; auto. split; auto. Qed.
Lemma grows_refl q : grows q q.
Proof. exists q, []. rewrite app_nil_r. auto using rel1_refl. Qed.
Lemma rel1_core q a : Forall2 rel1 q a -> map core a = map core q.
Proof. induction 1 as [|x y q a [C _] _ IH]; [reflexivity|]. cbn [map]. congruence. Qed.
Lemma slog_core a b : map core a = map core b -> slog a = slog b.
Proof.
  revert b. induction a as [|x a IH]; intros [|y b] H; try discriminate; [reflexivity|]. cbn [map] in H. apply cons_inj in H.
  destruct H as [H1 H2]. unfold slog in *. cbn [filter]. unfold core in H1. inversion H1 as [[A B C]]. rewrite C.
  destruct (esent y); cbn [map]; [|apply IH; exact H2]. f_equal; [unfold sent_out; rewrite A, B; reflexivity|apply IH; exact H2].
Qed.
Lemma slog_app a b : slog (a ++ b) = slog a ++ slog b.
Proof. unfold slog. rewrite filter_app, map_app. reflexivity. Qed.
Lemma sents_app a b : sents (a ++ b) = sents a ++ sents b.
Proof. unfold sents. apply filter_app. Qed.

Lemma ack_first_rel p q q' : ack_first p q = Some q' -> Forall2 rel1 q q'.
Proof.
  revert q'. induction q as [|e q IH]; intros q' H; cbn [ack_first] in H; [discriminate|].
  destruct (p e).
  - inversion H; subst. constructor; [split; [reflexivity|auto]|apply rel1_refl].
  - destruct (ack_first p q) as [r|]; [|discriminate]. inversion H; subst. constructor; [split; auto|apply IH; reflexivity].
Qed.
Lemma grows_trans q1 q2 q3 : grows q1 q2 -> grows q2 q3 -> grows q1 q3.
Proof.
  intros (a1 & n1 & -> & R1 & F1) (a2 & n2 & -> & R2 & F2).
  apply Forall2_app_inv_l in R2. destruct R2 as (x & y & Rx & Ry & ->).
  exists x, (y ++ n2). rewrite app_assoc. split; [reflexivity|]. split.
  - clear - R1 Rx. revert x Rx. induction R1 as [|u v q1 a1 [C A] _ IH]; intros x Rx.
    + inversion Rx; subst. constructor.
    + inversion Rx as [|? w ? x' HR Rx']; subst. destruct HR as [C' A']. constructor; [split; [congruence|auto]|apply IH; assumption].
  - apply Forall_app. split; [|exact F2]. clear - F1 Ry. revert y Ry. induction F1 as [|u n1 Hu _ IH]; intros y Ry.
    + inversion Ry; subst. constructor.
    + inversion Ry as [|? w ? y' HR Ry']; subst. destruct HR as [C' _]. constructor; [|apply IH; assumption].
      unfold core in C'. inversion C'. congruence.
Qed.
Lemma grows_append q q1 e : Forall2 rel1 q q1 -> esent e = false -> grows q (q1 ++ [e]).
Proof. intros R E. exists q1, [e]. auto. Qed.

Lemma handle_grows r q : match handle r q with (q', _, _, t) => t = false -> grows q q' end.
Proof.
  destruct r as [code|dup qos retain toff tlen poff plen pid|ct pid|pid code0|pid|]; cbn [handle].
  - destruct (ack_first _ q) as [q'|] eqn:A; [|intros; apply grows_refl].
    pose proof (ack_first_rel _ _ _ A) as R.
    destruct (code =? CONNACK_ACCEPTED); [|destruct (code =? CONNACK_ID_REJECTED)]; intros _; exists q', []; rewrite app_nil_r; auto.
  - destruct (qos =? 1).
    { destruct (try_pack CT_PUBACK pid 4 q) as [[q'|] t] eqn:T; intros ->; [|apply grows_refl].
      apply try_pack_loose in T. destruct T as [T _]. inversion T; subst. apply grows_append; [apply rel1_refl|reflexivity]. }
    destruct (qos =? 2); [|intros; apply grows_refl].
    destruct (existsb _ q); [intros; apply grows_refl|].
    destruct (try_pack CT_PUBREC pid 4 q) as [[q'|] t] eqn:T; intros ->; [|apply grows_refl].
    apply try_pack_loose in T. destruct T as [T _]. inversion T; subst. apply grows_append; [apply rel1_refl|reflexivity].
  - destruct (ct =? CT_PUBACK).
    { destruct (ack_first _ q) as [q'|] eqn:A; intros _; [|apply grows_refl]. exists q', []. rewrite app_nil_r. eauto using ack_first_rel. }
    destruct (ct =? CT_PUBREC).
    { destruct (existsb _ q); [intros; apply grows_refl|].
      destruct (ack_first _ q) as [q'|] eqn:A; [|intros; apply grows_refl]. pose proof (ack_first_rel _ _ _ A) as R.
      destruct (try_pack CT_PUBREL pid 4 q') as [[q''|] t] eqn:T; intros ->.
      - apply try_pack_loose in T. destruct T as [T _]. inversion T; subst. apply grows_append; [exact R|reflexivity].
      - exists q', []. rewrite app_nil_r. auto. }
    destruct (ct =? CT_PUBREL).
    { destruct (ack_first _ q) as [q'|] eqn:A; [|intros; apply grows_refl]. pose proof (ack_first_rel _ _ _ A) as R.
      destruct (try_pack CT_PUBCOMP pid 4 q') as [[q''|] t] eqn:T; intros ->.
      - apply try_pack_loose in T. destruct T as [T _]. inversion T; subst. apply grows_append; [exact R|reflexivity].
      - exists q', []. rewrite app_nil_r. auto. }
    destruct (ack_first _ q) as [q'|] eqn:A; intros _; [|apply grows_refl]. exists q', []. rewrite app_nil_r. eauto using ack_first_rel.
  - destruct (ack_first _ q) as [q'|] eqn:A; [|intros; apply grows_refl]. pose proof (ack_first_rel _ _ _ A) as R.
    destruct (code0 =? SUBACK_FAILURE); intros _; exists q', []; rewrite app_nil_r; auto.
  - destruct (ack_first _ q) as [q'|] eqn:A; intros _; [|apply grows_refl]. exists q', []. rewrite app_nil_r. eauto using ack_first_rel.
  - destruct (ack_first _ q) as [q'|] eqn:A; intros _; [|apply grows_refl]. exists q', []. rewrite app_nil_r. eauto using ack_first_rel.
Qed.

Lemma drain_grows f : forall q b, let d := drain f FIXED q b in d_tight d = false -> grows q (d_q d) /\ sents (d_out d) = [].
Proof.
  induction f as [|k IH]; intros q b; cbv zeta; [cbn; auto using grows_refl|]. rewrite drain_S.
  destruct (unpack FIXED b) as [|e|r c]; [cbn; auto using grows_refl|cbn; auto using grows_refl|].
  pose proof (handle_grows r q) as HG. destruct (handle r q) as [[[q' dl] oe] t]. cbv zeta.
  assert (MS : sents (if dl then msg_of b r else []) = []) by (destruct dl; [destruct r; reflexivity|reflexivity]).
  destruct (len b <? c); [cbn [d_tight d_q d_out]; intros ->; auto|].
  destruct oe; [cbn [d_tight d_q d_out]; intros ->; auto|].
  cbn [d_tight d_q d_out]. intros T. apply orb_false_elim in T. destruct T as [-> T2].
  destruct (IH q' (drop c b) T2) as [G S]. split; [eapply grows_trans; eauto|]. rewrite sents_app, MS, S. reflexivity.
Qed.

Lemma all_sent_rel q a : all_sent q -> Forall2 rel1 q a -> all_sent a.
Proof.
  unfold all_sent. induction 2 as [|x y q a [C A] _ IH]; [reflexivity|]. cbn [forallb] in *. apply andb_true_iff in H. destruct H as [H1 H2].
  rewrite (IH H2), andb_true_r. unfold core in C. inversion C as [[E1 E2 E]]. unfold unsent in *. rewrite <- E.
  destruct (eacked x) eqn:X; [rewrite (A eq_refl); reflexivity|]. cbn [negb andb] in H1.
  destruct (esent x); [rewrite andb_false_r; reflexivity|discriminate].
Qed.
Lemma send_clean a : all_sent a -> fst (send a) = a /\ filter unsent a = [].
Proof.
  unfold all_sent, send; cbn [fst]. induction a as [|e a IH]; intros H; [auto|]. cbn [forallb] in H. apply andb_true_iff in H.
  destruct H as [H1 H2]. destruct (IH H2) as [I1 I2]. apply negb_true_iff in H1. cbn [map filter]. rewrite H1, I1, I2. auto.
Qed.
Lemma send_new nw : Forall (fun e => esent e = false) nw ->
  slog (fst (send nw)) = map sent_out (filter unsent nw).
Proof.
  unfold send, slog; cbn [fst]. induction 1 as [|e nw E _ IH]; [reflexivity|]. cbn [map filter].
  destruct (unsent e) eqn:U.
  - cbn [set_sent esent filter map]. rewrite IH. f_equal.
  - rewrite E, IH. reflexivity.
Qed.

Lemma sents_sent_out l : sents (map sent_out l) = map sent_out l.
Proof.
  induction l as [|e l IH]; [reflexivity|]. cbn [map]. unfold sents in *. cbn [filter].
  assert (S : is_sent (sent_out e) = true) by (unfold sent_out; destruct (_ && _); reflexivity).
  rewrite S, IH. reflexivity.
Qed.

Lemma sync_ledger s : all_sent (mq s) ->
  d_tight (drain (S (length (buf s))) FIXED (mq s) (buf s)) = false ->
  let '(s', o) := sync FIXED s in halted s' = false -> ledger (mq s) (mq s') o.
Proof.
  intros AS T. destruct (drain_grows (S (length (buf s))) (mq s) (buf s) T) as [(a & nw & E & R & F) SO]. unfold sync.
  set (d := drain (S (length (buf s))) FIXED (mq s) (buf s)) in *.
  destruct (d_stop d); [|cbn [halted]; discriminate|cbn [halted]; discriminate].
  pose proof (send_all_sent (d_q d)) as SA. destruct (send (d_q d)) as [q' so] eqn:SE. cbn [fst] in SA. cbn [mq]. intros _.
  split; [exact SA|]. unfold send in SE. inversion SE as [[Q O]]. rewrite E, map_app, filter_app, map_app.
  pose proof (all_sent_rel _ _ AS R) as AA. destruct (send_clean a AA) as [S1 S2]. unfold send in S1; cbn [fst] in S1. rewrite S1, S2.
  exists a, (map (fun e => if unsent e then set_sent e else e) nw). split; [reflexivity|]. split; [apply rel1_core; exact R|].
  rewrite sents_app, SO. cbn [app]. pose proof (send_new nw F) as SN. unfold send in SN; cbn [fst] in SN. rewrite SN.
  cbn [map app]. symmetry. apply sents_sent_out.
Qed.

Lemma ledger_trans q1 q2 q3 o1 o2 : ledger q1 q2 o1 -> ledger q2 q3 o2 -> ledger q1 q3 (o1 ++ o2).
Proof.
  intros (_ & a1 & n1 & -> & C1 & L1) (A3 & a2 & n2 & -> & C2 & L2). split; [exact A3|].
  rewrite map_app in C2.
  assert (SP : exists x y, a2 = x ++ y /\ map core x = map core a1 /\ map core y = map core n1).
  { clear - C2. revert a2 C2. induction a1 as [|u a1 IH]; intros a2 C2.
    - exists [], a2. auto.
    - destruct a2 as [|v a2]; [discriminate|]. cbn [map app] in C2. apply cons_inj in C2. destruct C2 as [H1 H2].
      destruct (IH a2 H2) as (x & y & -> & X & Y). exists (v :: x), y. cbn [map app]. repeat split; [congruence|exact Y]. }
  destruct SP as (x & y & -> & X & Y). exists x, (y ++ n2). rewrite app_assoc. split; [reflexivity|]. split; [congruence|].
  rewrite slog_app, sents_app, (slog_core y n1 Y), L1, L2. reflexivity.
Qed.
Lemma ledger_nil q : all_sent q -> ledger q q [].
Proof. intros A. split; [exact A|]. exists q, []. rewrite app_nil_r. auto. Qed.

Lemma orb_false_l' a b : a || b = false -> a = false /\ b = false.
Proof. destruct a, b; auto. Qed.

Lemma feed_refines fuel : forall s chunk q0,
  bytes_ok (buf s) -> bytes_ok chunk -> len (buf s) < RECVBUF -> qeq (mq s) q0 -> (length chunk < fuel)%nat ->
  let d := drain (S (length (buf s ++ chunk))) FIXED q0 (buf s ++ chunk) in
  d_tight d = false ->
  let '(s', o) := feed fuel FIXED s chunk in
  rx_of o = rx_of (d_out d) ++ rx_of_stop (d_stop d) /\ qeq (mq s') (d_q d) /\
  halted s' = negb (continues (d_stop d)) /\ bytes_ok (buf s') /\
  (continues (d_stop d) = true -> buf s' = d_rest d /\ len (buf s') < RECVBUF) /\
  (all_sent (mq s) -> halted s' = false -> ledger (mq s) (mq s') o).
Proof.
  induction fuel as [|k IH]; intros s chunk q0 OKb OKc LB Q LF; [lia|]. cbv zeta. intros TI. cbn [feed].
  set (n := if len chunk <? RECVBUF - len (buf s) then len chunk else RECVBUF - len (buf s)).
  assert (Hn : 0 <= n <= len chunk /\ (n < len chunk -> n = RECVBUF - len (buf s)) /\ (0 < len chunk -> 0 < n)).
  { unfold n. pose proof (len_nonneg chunk). destruct (len chunk <? RECVBUF - len (buf s)) eqn:E;
    [apply Z.ltb_lt in E|apply Z.ltb_ge in E]; lia. }
  set (piece := take n chunk). set (rest := drop n chunk).
  assert (CH : chunk = piece ++ rest) by (symmetry; apply take_drop).
  assert (OKp : bytes_ok piece) by (apply bytes_ok_take; assumption).
  assert (OKr : bytes_ok rest) by (apply bytes_ok_drop; assumption).
  assert (OKbp : bytes_ok (buf s ++ piece)) by (apply bytes_ok_app; auto).
  pose proof (sync_spec (put s piece)) as SS. cbn [put buf mq] in SS. specialize (SS OKbp). cbv zeta in SS.
  pose proof (sync_ledger (put s piece)) as SL. cbn [put buf mq] in SL.
  destruct (sync FIXED (put s piece)) as [s1 o1].
  destruct SS as (S1 & S2 & S3 & S4 & _).
  (* the same loop on the abstract queue q0 *)
  pose proof (drain_qeq (S (length (buf s ++ piece))) (mq s) q0 (buf s ++ piece) Q) as DQ. cbv zeta in DQ.
  set (d1 := drain (S (length (buf s ++ piece))) FIXED (mq s) (buf s ++ piece)) in *.
  set (d1' := drain (S (length (buf s ++ piece))) FIXED q0 (buf s ++ piece)) in *.
  pose proof (drain_app (S (length (buf s ++ piece))) q0 (buf s ++ piece) rest (S (length ((buf s ++ piece) ++ rest)))
                OKbp OKr ltac:(lia) ltac:(lia)) as DA. cbv zeta in DA. fold d1' in DA.
  rewrite <- app_assoc, <- CH in DA.
  set (d := drain (S (length (buf s ++ chunk))) FIXED q0 (buf s ++ chunk)) in *.
  destruct DQ as [T1 DQ].
  destruct (continues (d_stop d1')) eqn:CO.
  - (* the first piece ends waiting for more data *)
    destruct DA as (A & B & C & D & E). rewrite E in TI. apply orb_false_l' in TI. destruct TI as [TI1 TI2].
    rewrite <- T1 in TI1. destruct (DQ TI1) as (Q1 & R1 & O1 & ST1 & _).
    assert (H1 : halted s1 = false) by (rewrite S4, ST1, CO; reflexivity).
    pose proof (drain_rest (S (length (buf s ++ piece))) q0 (buf s ++ piece) OKbp ltac:(lia)) as DR. cbv zeta in DR. fold d1' in DR.
    destruct DR as (DR1 & DR2 & _ & DR4 & _).
    assert (W : d_stop d1' = Wait) by (destruct (d_stop d1'); try discriminate; reflexivity).
    destruct (DR4 W) as [DR5 DR6].
    destruct (0 <? len rest) eqn:LR; cbn [andb].
    + rewrite H1. cbn [negb]. apply Z.ltb_lt in LR.
      assert (LK : (length rest < k)%nat).
      { pose proof (len_drop n chunk ltac:(lia)) as LL. fold rest in LL. unfold len in LL, LR, Hn. lia. }
      specialize (IH s1 rest (d_q d1') ltac:(rewrite S2, R1; exact DR1) OKr ltac:(rewrite S2, R1; exact DR5)
                     (qeq_trans _ _ _ S3 Q1) LK). cbv zeta in IH.
      rewrite S2, R1 in IH. specialize (IH TI2).
      destruct (feed k FIXED s1 rest) as [s2 o2]. destruct IH as (I1 & I2 & I3 & I4 & I5 & I6).
      rewrite rx_of_app, S1, I1, O1, ST1, W, C, D, A, B. cbn [rx_of_stop]. rewrite app_nil_r, app_assoc.
      split; [reflexivity|]. split; [exact I2|]. split; [exact I3|]. split; [exact I4|]. split; [exact I5|].
      intros AS HH. pose proof (SL AS TI1 H1) as L1. apply (ledger_trans _ _ _ _ _ L1). apply I6; [apply L1|exact HH].
    + (* nothing left: the whole chunk was the piece *)
      apply Z.ltb_ge in LR. assert (RN : rest = []).
      { destruct rest; [reflexivity|]. rewrite len_cons in LR. pose proof (len_nonneg rest). lia. }
      assert (PC : piece = chunk) by (rewrite CH, RN, app_nil_r; reflexivity).
      assert (DD : d = d1').
      { unfold d, d1'. rewrite PC. reflexivity. }
      rewrite DD, S1, O1, ST1. rewrite S4, ST1. rewrite S2, R1. split; [reflexivity|]. split; [exact (qeq_trans _ _ _ S3 Q1)|].
      split; [reflexivity|]. split; [exact DR1|]. split; [intros _; auto|]. intros AS HH. apply SL; assumption.
  - (* the first piece ends the session *)
    destruct DA as (A & C & D & E). rewrite E in TI. rewrite <- T1 in TI. destruct (DQ TI) as (Q1 & R1 & O1 & ST1 & _).
    assert (H1 : halted s1 = true) by (rewrite S4, ST1, CO; reflexivity).
    rewrite H1, andb_false_r. rewrite S1, O1, ST1, C, D. split; [reflexivity|]. rewrite A. split; [exact (qeq_trans _ _ _ S3 Q1)|].
    rewrite CO. split; [rewrite H1; reflexivity|]. split; [|split; [discriminate|intros _ HH; rewrite H1 in HH; discriminate]].
    rewrite S2, R1. pose proof (drain_rest (S (length (buf s ++ piece))) q0 (buf s ++ piece) OKbp ltac:(lia)) as DR.
    cbv zeta in DR. apply DR.
Qed.

(* ------------------------------------------------------------------------------------------ *)
(* refinement: any segmentation of a byte stream is handled like the unsegmented stream *)
Record ready (s : st) : Prop := {
  rd_ok : bytes_ok (buf s);
  rd_len : len (buf s) < RECVBUF;
  rd_inc : unpack FIXED (buf s) = UInc;
  rd_run : halted s = false }.

Lemma run_halted segs : forall s, halted s = true -> run_from FIXED s (map Seg segs) = (s, []).
Proof.
  induction segs as [|e evs IH]; intros s H; [reflexivity|]. cbn [map run_from]. unfold step. rewrite H.
  rewrite (IH s H). reflexivity.
Qed.

Lemma continues_wait s : continues s = true <-> s = Wait.
Proof. destruct s; cbn; split; congruence. Qed.

Theorem C16_refines_thm : forall segs s q0,
  ready s -> Forall bytes_ok segs -> qeq (mq s) q0 ->
  let d := parse_stream q0 (buf s ++ concat segs) in
  d_tight d = false ->
  let r := run_from FIXED s (map Seg segs) in
  rx_of (snd r) = rx_of (d_out d) ++ rx_of_stop (d_stop d) /\ qeq (mq (fst r)) (d_q d) /\
  (d_stop d = Wait -> ready (fst r) /\ buf (fst r) = d_rest d) /\ (d_stop d <> Wait -> halted (fst r) = true) /\
  (all_sent (mq s) -> halted (fst r) = false -> ledger (mq s) (mq (fst r)) (snd r)).
Proof.
  induction segs as [|c segs IH]; intros s q0 R OKs Q; unfold parse_stream.
  - cbn [concat map run_from fst snd rx_of]. rewrite app_nil_r. destruct R as [R1 R2 R3 R4].
    rewrite drain_S, R3. replace (RECVBUF <=? len (buf s)) with false by (symmetry; apply Z.leb_gt; lia).
    cbn. intros _. split; [reflexivity|]. split; [exact Q|]. split; [intros _; split; [constructor; assumption|reflexivity]|].
    split; [congruence|]. intros AS _. apply ledger_nil; exact AS.
  - cbv zeta. intros TI. cbn [concat] in TI. cbn [map run_from concat]. unfold step. destruct R as [R1 R2 R3 R4]. rewrite R4.
    cbn [fx_recv FIXED]. inversion OKs as [|? ? OKc OKr]; subst.
    assert (OKcat : bytes_ok (concat segs)).
    { clear - OKr. induction OKr; cbn [concat]; [constructor|apply bytes_ok_app; auto]. }
    pose proof (feed_refines (S (S (length c))) s c q0 R1 OKc R2 Q ltac:(lia)) as FR. cbv zeta in FR.
    pose proof (drain_app (S (length (buf s ++ c))) q0 (buf s ++ c) (concat segs) (S (length ((buf s ++ c) ++ concat segs)))
                  ltac:(apply bytes_ok_app; auto) OKcat ltac:(lia) ltac:(lia)) as DA. cbv zeta in DA.
    rewrite <- app_assoc in DA.
    set (d1 := drain (S (length (buf s ++ c))) FIXED q0 (buf s ++ c)) in *.
    set (d := drain (S (length (buf s ++ c ++ concat segs))) FIXED q0 (buf s ++ c ++ concat segs)) in *.
    destruct (continues (d_stop d1)) eqn:CO.
    + destruct DA as (A & B & C & D & E). rewrite E in TI. apply orb_false_l' in TI. destruct TI as [TI1 TI2].
      specialize (FR TI1). destruct (feed (S (S (length c))) FIXED s c) as [s1 o1].
      destruct FR as (F1 & F2 & F3 & F4 & F5 & FL). destruct (F5 eq_refl) as [F6 F7].
      pose proof (drain_rest (S (length (buf s ++ c))) q0 (buf s ++ c) ltac:(apply bytes_ok_app; auto) ltac:(lia)) as DR.
      cbv zeta in DR. fold d1 in DR. destruct DR as (_ & _ & _ & DR4 & _).
      apply continues_wait in CO. destruct (DR4 CO) as [_ DR6].
      assert (R' : ready s1).
      { constructor; [exact F4 | exact F7 | rewrite F6; exact DR6 | exact F3]. }
      specialize (IH s1 (d_q d1) R' OKr F2). unfold parse_stream in IH. cbv zeta in IH. rewrite F6 in IH.
      specialize (IH TI2). destruct (run_from FIXED s1 (map Seg segs)) as [s2 o2]. cbn [fst snd] in *.
      destruct IH as (I1 & I2 & I3 & I4 & IL).
      rewrite rx_of_app, F1, I1, C, CO, D, A, B. cbn [rx_of_stop]. rewrite app_nil_r, app_assoc.
      split; [reflexivity|]. split; [exact I2|]. split; [exact I3|]. split; [exact I4|].
      intros AS HH. destruct R' as [_ _ _ RH]. pose proof (FL AS RH) as L1. apply (ledger_trans _ _ _ _ _ L1). apply IL; [apply L1|exact HH].
    + destruct DA as (A & C & D & E). rewrite E in TI. specialize (FR TI).
      destruct (feed (S (S (length c))) FIXED s c) as [s1 o1]. destruct FR as (F1 & F2 & F3 & F4 & F5 & FL).
      cbn [negb] in F3. rewrite (run_halted segs s1 F3). cbn [fst snd]. rewrite app_nil_r.
      rewrite F1, C, D, A. split; [reflexivity|]. split; [exact F2|]. split; [intros W; rewrite W in CO; discriminate|].
      split; [auto|]. intros _ HH. rewrite F3 in HH. discriminate.
Qed.

(* two segmentations of the same bytes *)
Theorem C16_segmentation_independent_thm : forall s segs1 segs2,
  ready s -> Forall bytes_ok segs1 -> Forall bytes_ok segs2 -> concat segs1 = concat segs2 ->
  d_tight (parse_stream (mq s) (buf s ++ concat segs1)) = false ->
  let r1 := run_from FIXED s (map Seg segs1) in let r2 := run_from FIXED s (map Seg segs2) in
  rx_of (snd r1) = rx_of (snd r2) /\ qeq (mq (fst r1)) (mq (fst r2)) /\ halted (fst r1) = halted (fst r2) /\
  (halted (fst r1) = false -> buf (fst r1) = buf (fst r2)).
Proof.
  intros s segs1 segs2 R O1 O2 E TI. cbv zeta.
  pose proof (C16_refines_thm segs1 s (mq s) R O1 (qeq_refl _)) as A. cbv zeta in A. specialize (A TI).
  pose proof (C16_refines_thm segs2 s (mq s) R O2 (qeq_refl _)) as B. cbv zeta in B. rewrite <- E in B. specialize (B TI).
  destruct A as (A1 & A2 & A3 & A4 & _), B as (B1 & B2 & B3 & B4 & _).
  split; [congruence|]. split; [exact (qeq_trans _ _ _ A2 (qeq_sym _ _ B2))|].
  destruct (d_stop (parse_stream (mq s) (buf s ++ concat segs1))) eqn:ST.
  - destruct (A3 eq_refl) as [[_ _ _ H1] E1], (B3 eq_refl) as [[_ _ _ H2] E2]. split; [congruence|]. intros _. congruence.
  - rewrite A4, B4 by discriminate. split; [reflexivity|discriminate].
  - rewrite A4, B4 by discriminate. split; [reflexivity|discriminate].
Qed.

(* ------------------------------------------------------------------------------------------ *)
(* memory safety and "slices inside the received data", for every history of events *)
Definition out_ok (o : out) : Prop :=
  match o with
  | Msg _ qos _ toff tlen poff plen valid bytes =>
      0 <= toff /\ 0 <= tlen /\ toff + tlen <= poff /\ 0 <= plen /\ poff + plen <= valid /\ valid <= RECVBUF /\
      len bytes = tlen + plen /\ 0 <= qos <= 2
  | Fault => False
  | _ => True
  end.

Record inv (s : st) : Prop := {
  inv_ok : bytes_ok (buf s);
  inv_len : len (buf s) <= RECVBUF;
  inv_stale : len (buf s) + len (stale s) = RECVBUF }.

Definition ev_ok (e : ev) : Prop := match e with Seg c => bytes_ok c | _ => True end.

Lemma msg_of_ok b r c : bytes_ok b -> len b <= RECVBUF -> unpack FIXED b = UOk r c -> Forall out_ok (msg_of b r).
Proof.
  intros OK L U. destruct r; cbn [msg_of]; try constructor; [|constructor].
  destruct (unpack_publish_slices _ _ _ _ _ _ _ _ _ _ OK U) as (A & B & C & D & E & F & G & _).
  cbn [out_ok]. rewrite len_app, !slice_inside by lia. rewrite !len_take, !len_drop by lia. repeat split; lia.
Qed.

Lemma drain_out_ok f : forall q b, bytes_ok b -> len b <= RECVBUF -> (length b < f)%nat -> Forall out_ok (d_out (drain f FIXED q b)).
Proof.
  induction f as [|k IH]; intros q b OK L LF; [lia|]. rewrite drain_S.
  destruct (unpack FIXED b) as [|e|r c] eqn:U; [constructor|constructor|].
  destruct (unpack_consumed b r c OK U) as [C1 C2].
  destruct (handle r q) as [[[q' dl] oe] t]. cbv zeta.
  replace (len b <? c) with false by (symmetry; apply Z.ltb_ge; lia).
  assert (M : Forall out_ok (if dl then msg_of b r else [])) by (destruct dl; [apply (msg_of_ok b r c); auto|constructor]).
  destruct oe; cbn [d_out]; [exact M|]. apply Forall_app. split; [exact M|].
  pose proof (length_drop_lt b c ltac:(lia)).
  apply IH; [apply bytes_ok_drop; auto|rewrite len_drop by lia; lia|lia].
Qed.

Lemma Forall_sent l : Forall out_ok (map sent_out l).
Proof. induction l; cbn [map]; constructor; auto. unfold sent_out. destruct (_ && _); exact I. Qed.

Lemma sync_inv s : inv s -> let '(s', o) := sync FIXED s in inv s' /\ Forall out_ok o /\
  (halted s' = false -> len (buf s') < RECVBUF).
Proof.
  intros [I1 I2 I3].
  pose proof (drain_rest (S (length (buf s))) (mq s) (buf s) I1 ltac:(lia)) as DR. cbv zeta in DR.
  pose proof (drain_out_ok (S (length (buf s))) (mq s) (buf s) I1 I2 ltac:(lia)) as DO.
  destruct DR as (D1 & D2 & D3 & D4 & D5). unfold sync.
  set (d := drain (S (length (buf s))) FIXED (mq s) (buf s)) in *.
  assert (IV : forall q h, inv {| buf := d_rest d; stale := d_moved d ++ stale s; mq := q; halted := h |}).
  { intros; constructor; cbn [buf stale]; [exact D1|lia|rewrite len_app; lia]. }
  destruct (d_stop d) eqn:ST.
  - destruct (send (d_q d)) as [q' so] eqn:SE. unfold send in SE. inversion SE; subst.
    split; [apply IV|]. split; [apply Forall_app; split; [exact DO|apply Forall_sent]|]. intros _. cbn [buf]. apply D4; reflexivity.
  - split; [apply IV|]. split; [|discriminate]. apply Forall_app; split; [exact DO|]. repeat constructor.
  - congruence.
Qed.

Lemma feed_inv fuel : forall s chunk, inv s -> bytes_ok chunk ->
  let '(s', o) := feed fuel FIXED s chunk in inv s' /\ Forall out_ok o.
Proof.
  induction fuel as [|k IH]; intros s chunk I OKc; cbn [feed]; [split; [exact I|constructor]|].
  set (n := if len chunk <? RECVBUF - len (buf s) then len chunk else RECVBUF - len (buf s)).
  destruct I as [I1 I2 I3].
  assert (Hn : 0 <= n <= len chunk /\ n <= RECVBUF - len (buf s)).
  { unfold n. pose proof (len_nonneg chunk). destruct (len chunk <? RECVBUF - len (buf s)) eqn:E;
    [apply Z.ltb_lt in E|apply Z.ltb_ge in E]; lia. }
  assert (IP : inv (put s (take n chunk))).
  { constructor; cbn [put buf stale].
    - apply bytes_ok_app; split; [exact I1|apply bytes_ok_take; exact OKc].
    - rewrite len_app, len_take by lia. lia.
    - rewrite len_app. rewrite (len_take n chunk) by lia. rewrite len_drop by lia. lia. }
  pose proof (sync_inv _ IP) as SI. destruct (sync FIXED (put s (take n chunk))) as [s1 o1]. destruct SI as (S1 & S2 & S3).
  destruct ((0 <? len (drop n chunk)) && negb (halted s1)); [|auto].
  specialize (IH s1 (drop n chunk) S1 (bytes_ok_drop n chunk OKc)).
  destruct (feed k FIXED s1 (drop n chunk)) as [s2 o2]. destruct IH as [A B]. split; [exact A|]. apply Forall_app; auto.
Qed.

Lemma boot_with_inv mem n : len mem = RECVBUF ->
  let '(s', o) := boot_with FIXED mem n in inv s' /\ Forall out_ok o.
Proof.
  intros L. unfold boot_with.
  assert (I0 : inv {| buf := []; stale := mem;
               mq := [{| ect := CT_CONNECT; epid := 0; esz := n; esent := false; eacked := false |}]; halted := false |}).
  { pose proof (cf_recvbuf_lo consts_ok). constructor; cbn [buf stale]; [constructor|change (len (@nil Z)) with 0; lia|change (len (@nil Z)) with 0; lia]. }
  pose proof (sync_inv _ I0) as SI. destruct (sync FIXED _) as [s1 o1]. destruct SI as (S1 & S2 & _).
  split; [exact S1|]. constructor; [exact I|exact S2].
Qed.

Lemma step_inv s e : inv s -> ev_ok e -> let '(s', o) := step FIXED s e in inv s' /\ Forall out_ok o.
Proof.
  intros I OK. unfold step.
  assert (RL : forall n, let '(s', o) := (let '(s1, o1) := boot_with FIXED (buf s ++ stale s) n in (s1, (if halted s then [] else [Reconnect]) ++ o1)) in
                         inv s' /\ Forall out_ok o).
  { intros n. pose proof (boot_with_inv (buf s ++ stale s) n ltac:(rewrite len_app; apply I)) as B.
    destruct (boot_with FIXED (buf s ++ stale s) n) as [s1 o1]. destruct B as [B1 B2]. split; [exact B1|].
    apply Forall_app. split; [destruct (halted s); repeat constructor|exact B2]. }
  destruct e as [n|c| |pid sz| |pid sz|n]; try exact (RL n);
  (destruct (halted s); [split; [exact I|constructor]|]); cbn [fx_recv FIXED].
  - split; [exact I|constructor].
  - apply feed_inv; assumption.
  - pose proof (sync_inv s I) as SI. destruct (sync FIXED s) as [s1 o1]. destruct SI as (S1 & S2 & S3).
    destruct (halted s1); [auto|]. split; [|exact S2]. destruct S1; constructor; assumption.
  - unfold device_pack. destruct (try_pack _ _ _ _) as [[q'|] t]; (split; [destruct I; constructor; assumption|repeat constructor]).
  - unfold device_pack. destruct (try_pack _ _ _ _) as [[q'|] t]; (split; [destruct I; constructor; assumption|repeat constructor]).
  - unfold device_pack. destruct (try_pack _ _ _ _) as [[q'|] t]; (split; [destruct I; constructor; assumption|repeat constructor]).
Qed.

Lemma run_from_inv evs : forall s, inv s -> Forall ev_ok evs ->
  let '(s', o) := run_from FIXED s evs in inv s' /\ Forall out_ok o.
Proof.
  induction evs as [|e evs IH]; intros s I OK; cbn [run_from]; [split; [exact I|constructor]|].
  inversion OK; subst. pose proof (step_inv s e I ltac:(assumption)) as SI. destruct (step FIXED s e) as [s1 o1].
  destruct SI as [S1 S2]. specialize (IH s1 S1 ltac:(assumption)). destruct (run_from FIXED s1 evs) as [s2 o2].
  destruct IH. split; [assumption|apply Forall_app; auto].
Qed.

Lemma zeros_ok n : bytes_ok (zeros n).
Proof. unfold zeros, bytes_ok. apply Forall_forall. intros x H. apply repeat_spec in H. subst. unfold byte_ok; lia. Qed.
Lemma len_zeros n : 0 <= n -> len (zeros n) = n.
Proof. intros; unfold len, zeros. rewrite repeat_length. lia. Qed.

Theorem C16_safe_thm : forall evs, Forall ev_ok evs -> Forall out_ok (run FIXED evs).
Proof.
  intros evs OK. unfold run. destruct evs as [|e r]; [constructor|]. destruct e as [n|c| |pid sz| |pid sz|n]; [|constructor..].
  inversion OK; subst. unfold boot.
  pose proof (boot_with_inv (zeros RECVBUF) n ltac:(apply len_zeros; pose proof (cf_recvbuf_lo consts_ok); lia)) as B.
  destruct (boot_with FIXED (zeros RECVBUF) n) as [s1 o1]. destruct B as [B1 B2].
  pose proof (run_from_inv r s1 B1 ltac:(assumption)) as RI. destruct (run_from FIXED s1 r) as [s2 o2]. destruct RI.
  cbn [snd]. apply Forall_app. split; assumption.
Qed.

(* ------------------------------------------------------------------------------------------ *)
(* MQTT 3.1.1 encodings against the unpacker *)
Lemma range_forall (P : Z -> bool) (n : nat) :
  forallb P (map Z.of_nat (seq 0 n)) = true -> forall z, 0 <= z < Z.of_nat n -> P z = true.
Proof.
  intros H z Hz. rewrite forallb_forall in H. apply H. apply in_map_iff. exists (Z.to_nat z). split; [lia|].
  apply in_seq. lia.
Qed.

Definition req_flags (ct : Z) : Z := if ct =? 6 then 2 else 0.
Definition spec_rule (ct fl : Z) : Z :=
  if (ct =? 0) || (ct =? 15) then E_CONTROL_FORBIDDEN_TYPE
  else if (ct =? 3) || (ct =? 8) || (ct =? 10) then (if (ct =? 3) || (fl =? 2) then 0 else E_CONTROL_INVALID_FLAGS)
  else if fl =? req_flags ct then 0 else E_CONTROL_INVALID_FLAGS.
Lemma rule_table ct fl : 0 <= ct < 16 -> 0 <= fl < 16 -> rule_violation ct fl = spec_rule ct fl.
Proof.
  intros Hc Hf.
  assert (T : forallb (fun c => forallb (fun f => rule_violation c f =? spec_rule c f) (map Z.of_nat (seq 0 16))) (map Z.of_nat (seq 0 16)) = true)
    by (vm_compute; reflexivity).
  pose proof (range_forall _ 16 T ct Hc) as T1. cbv beta in T1.
  pose proof (range_forall _ 16 T1 fl Hf) as T2. cbv beta in T2. apply Z.eqb_eq in T2. exact T2.
Qed.

Lemma nthz_0 a l : nthz (a :: l) 0 = a. Proof. reflexivity. Qed.
Lemma nthz_S a l i : 0 < i -> nthz (a :: l) i = nthz l (i - 1).
Proof. intros H. unfold nthz. replace (Z.to_nat i) with (S (Z.to_nat (i - 1))) by lia. reflexivity. Qed.

Lemma b0_div ct fl : 0 <= fl < 16 -> (ct * 16 + fl) / 16 = ct /\ (ct * 16 + fl) mod 16 = fl.
Proof.
  intros H. split.
  - rewrite Z.add_comm, Z.div_add by lia. rewrite Z.div_small by lia. lia.
  - rewrite Z.add_comm, Z.mod_add by lia. apply Z.mod_small; lia.
Qed.

Lemma unpack_header_enc ct fl L tail : 0 <= fl < 16 -> 0 <= L < 16384 ->
  unpack_header ((ct * 16 + fl) :: enc_rl L ++ tail) = hfin ct fl L (1 + len (enc_rl L)).
Proof.
  intros Hf HL. destruct (b0_div ct fl Hf) as [D M]. unfold unpack_header, enc_rl.
  pose proof (len_nonneg tail) as LT.
  destruct (L <? 128) eqn:E1.
  - apply Z.ltb_lt in E1. change ([L] ++ tail) with (L :: tail). change (len [L]) with 1. rewrite !len_cons.
    replace (1 + (1 + len tail) =? 0) with false by (symmetry; apply Z.eqb_neq; lia).
    replace (1 + (1 + len tail) <=? 1) with false by (symmetry; apply Z.leb_gt; lia).
    rewrite nthz_0, (nthz_S _ _ 1) by lia. cbn [Z.sub]. rewrite nthz_0, D, M.
    replace (L <? 128) with true by (symmetry; apply Z.ltb_lt; lia). reflexivity.
  - apply Z.ltb_ge in E1. replace (L <? 16384) with true by (symmetry; apply Z.ltb_lt; lia).
    change ([128 + L mod 128; L / 128] ++ tail) with ((128 + L mod 128) :: (L / 128) :: tail). change (len [128 + L mod 128; L / 128]) with 2. rewrite !len_cons.
    replace (1 + (1 + (1 + len tail)) =? 0) with false by (symmetry; apply Z.eqb_neq; lia).
    replace (1 + (1 + (1 + len tail)) <=? 1) with false by (symmetry; apply Z.leb_gt; lia).
    replace (1 + (1 + (1 + len tail)) <=? 2) with false by (symmetry; apply Z.leb_gt; lia).
    rewrite nthz_0, (nthz_S _ _ 1), (nthz_S _ _ 2), (nthz_S _ _ (2 - 1)) by lia. cbn [Z.sub Z.pos_sub Z.succ_double Z.pred_double Z.double]. rewrite !nthz_0, D, M.
    assert (M1 : 0 <= L mod 128 < 128) by (apply Z.mod_pos_bound; lia).
    assert (D1 : 1 <= L / 128 < 128) by (split; [apply Z.div_le_lower_bound; lia|apply Z.div_lt_upper_bound; lia]).
    replace (128 + L mod 128 <? 128) with false by (symmetry; apply Z.ltb_ge; lia).
    replace (L / 128 <? 128) with true by (symmetry; apply Z.ltb_lt; lia).
    assert (MM : (128 + L mod 128) mod 128 = L mod 128).
    { replace (128 + L mod 128) with (L mod 128 + 1 * 128) by lia. rewrite Z.mod_add by lia. apply Z.mod_small; lia. }
    rewrite MM.
    rewrite (Z.mod_small (L / 128) 128) by lia.
    replace (L mod 128 + 128 * (L / 128)) with L by (pose proof (Z.div_mod L 128 ltac:(lia)); lia).
    reflexivity.
Qed.

Lemma nthz_app_r (a b : list Z) i : 0 <= i -> nthz (a ++ b) (len a + i) = nthz b i.
Proof.
  intros H. unfold nthz, len. rewrite app_nth2 by lia. f_equal. lia.
Qed.
Lemma be16_at (a z : list Z) x y : be16 (a ++ x :: y :: z) (len a) = 256 * x + y.
Proof.
  unfold be16. replace (len a) with (len a + 0) at 1 by lia. replace (len a + 1) with (len a + 1) by lia.
  rewrite !nthz_app_r by lia. reflexivity.
Qed.
Lemma slice_at (a m z : list Z) : slice (a ++ m ++ z) (len a) (len m) = m.
Proof.
  pose proof (len_nonneg a); pose proof (len_nonneg m); pose proof (len_nonneg z).
  rewrite slice_inside by (rewrite ?len_app; lia). rewrite drop_app_exact. apply take_app_exact.
Qed.
Lemma enc16_be n : 0 <= n < 65536 -> 256 * (n / 256) + n mod 256 = n.
Proof. intros. pose proof (Z.div_mod n 256 ltac:(lia)). lia. Qed.
Lemma len_enc_rl L : 0 <= L < 16384 -> len (enc_rl L) = if L <? 128 then 1 else 2.
Proof. intros H. unfold enc_rl. destruct (L <? 128); [reflexivity|]. replace (L <? 16384) with true by (symmetry; apply Z.ltb_lt; lia). reflexivity. Qed.

Record wf_publish (dup qos retain pid : Z) (topic payload : list Z) : Prop := {
  wf_dup : 0 <= dup <= 1; wf_qos : 0 <= qos <= 2; wf_retain : 0 <= retain <= 1; wf_pid : 0 <= pid < 65536;
  wf_topic : len topic < 65536;
  wf_fits : len (enc_publish dup qos retain pid topic payload) <= RECVBUF }.

Definition pub_toff (qos : Z) (topic payload : list Z) : Z :=
  let L := 2 + len topic + (if 0 <? qos then 2 else 0) + len payload in 1 + (if L <? 128 then 1 else 2) + 2.

Lemma unpack_enc_publish dup qos retain pid topic payload rest :
  wf_publish dup qos retain pid topic payload ->
  let b := enc_publish dup qos retain pid topic payload ++ rest in
  let toff := pub_toff qos topic payload in
  let poff := toff + len topic + (if 0 <? qos then 2 else 0) in
  unpack FIXED b = UOk (RPublish dup qos retain toff (len topic) poff (len payload) (if 0 <? qos then pid else 0))
                       (len (enc_publish dup qos retain pid topic payload)) /\
  slice b toff (len topic) = topic /\ slice b poff (len payload) = payload /\
  poff + len payload = len (enc_publish dup qos retain pid topic payload).
Proof.
  intros [Wd Wq Wr Wp Wt Wf]. pose proof consts_ok as CF. pose proof (cf_recvbuf_hi CF) as RH.
  pose proof (len_nonneg topic) as LT; pose proof (len_nonneg payload) as LP; pose proof (len_nonneg rest) as LR.
  unfold pub_toff. cbv zeta. unfold enc_publish in *.
  set (pidb := if 0 <? qos then enc16 pid else []) in *.
  assert (Lpid : len pidb = if 0 <? qos then 2 else 0) by (unfold pidb; destruct (0 <? qos); reflexivity).
  set (body := enc16 (len topic) ++ topic ++ pidb ++ payload) in *.
  assert (LB : len body = 2 + len topic + (if 0 <? qos then 2 else 0) + len payload).
  { unfold body. rewrite !len_app, Lpid. change (len (enc16 (len topic))) with 2. lia. }
  set (L := len body) in *.
  set (fl := dup * 8 + qos * 2 + retain).
  assert (Hfl : 0 <= fl < 16) by (unfold fl; lia).
  assert (F : (fl / 8) mod 2 = dup /\ (fl / 2) mod 4 = qos /\ fl mod 2 = retain).
  { unfold fl. assert (D : dup = 0 \/ dup = 1) by lia. assert (Q : qos = 0 \/ qos = 1 \/ qos = 2) by lia.
    assert (R : retain = 0 \/ retain = 1) by lia.
    destruct D as [-> | ->], Q as [-> | [-> | ->]], R as [-> | ->]; repeat split; reflexivity. }
  destruct F as (F1 & F2 & F3).
  replace (CT_PUBLISH * 16 + dup * 8 + qos * 2 + retain) with (3 * 16 + fl) in * by (unfold fl; destruct (cf_ct CF) as (_ & _ & -> & _); lia).
  change ([3 * 16 + fl] ++ enc_rl L ++ body) with ((3 * 16 + fl) :: (enc_rl L ++ body)) in *.
  rewrite len_cons, len_app in Wf.
  assert (HL : 0 <= L < 16384) by (pose proof (len_nonneg (enc_rl L)); pose proof (len_nonneg body); unfold L in *; lia).
  assert (K : (if 0 <? qos then 2 else 0) = 0 \/ (if 0 <? qos then 2 else 0) = 2) by (destruct (0 <? qos); auto).
  rewrite len_enc_rl in * by assumption.
  set (hl := if L <? 128 then 1 else 2) in *.
  assert (Hhl : 1 <= hl <= 2) by (unfold hl; destruct (L <? 128); lia).
  set (pre := (3 * 16 + fl) :: enc_rl L).
  assert (Lpre : len pre = 1 + hl) by (unfold pre; rewrite len_cons, len_enc_rl by assumption; reflexivity).
  assert (SH : ((3 * 16 + fl) :: (enc_rl L ++ body)) ++ rest = pre ++ body ++ rest)
    by (unfold pre; rewrite <- !app_comm_cons, <- app_assoc; reflexivity).
  assert (LEN : len (((3 * 16 + fl) :: (enc_rl L ++ body)) ++ rest) = 1 + hl + L + len rest)
    by (rewrite SH, !len_app, Lpre; fold L; lia).
  (* slices *)
  assert (S1 : slice (pre ++ body ++ rest) (1 + hl + 2) (len topic) = topic).
  { unfold body. rewrite <- !app_assoc. rewrite (app_assoc pre). replace (1 + hl + 2) with (len (pre ++ enc16 (len topic))) by (rewrite len_app, Lpre; reflexivity).
    apply slice_at. }
  assert (S2 : slice (pre ++ body ++ rest) (1 + hl + 2 + len topic + (if 0 <? qos then 2 else 0)) (len payload) = payload).
  { unfold body. rewrite <- !app_assoc. rewrite (app_assoc pre), (app_assoc (pre ++ _)), (app_assoc ((pre ++ _) ++ _)).
    replace (1 + hl + 2 + len topic + (if 0 <? qos then 2 else 0)) with (len (((pre ++ enc16 (len topic)) ++ topic) ++ pidb))
      by (rewrite !len_app, Lpre, Lpid; change (len (enc16 (len topic))) with 2; lia).
    apply slice_at. }
  assert (B1 : be16 (pre ++ body ++ rest) (1 + hl) = len topic).
  { unfold body, enc16. rewrite <- Lpre. rewrite <- !app_assoc. cbn [app]. rewrite be16_at. apply enc16_be. lia. }
  assert (B2 : 0 < qos -> be16 (pre ++ body ++ rest) (1 + hl + 2 + len topic) = pid).
  { intros Q. unfold body, pidb. replace (0 <? qos) with true by (symmetry; apply Z.ltb_lt; lia).
    rewrite <- !app_assoc. rewrite (app_assoc pre), (app_assoc (pre ++ _)).
    replace (1 + hl + 2 + len topic) with (len ((pre ++ enc16 (len topic)) ++ topic))
      by (rewrite !len_app, Lpre; change (len (enc16 (len topic))) with 2; lia).
    unfold enc16 at 2. cbn [app]. rewrite be16_at. apply enc16_be. lia. }
  rewrite len_cons, len_app, len_enc_rl by assumption. fold L. rewrite <- LB. fold hl.
  split; [|split; [rewrite SH; exact S1|split; [rewrite SH; exact S2|lia]]].
  unfold unpack. cbn [app]. rewrite <- app_assoc. rewrite unpack_header_enc by assumption.
  unfold hfin. rewrite (cf_rule_publish CF). change (0 =? 0) with true. cbv iota. rewrite len_enc_rl by assumption. fold hl.
  change ((3 * 16 + fl) :: enc_rl L ++ body ++ rest) with (pre ++ body ++ rest).
  replace (len (pre ++ body ++ rest)) with (1 + hl + L + len rest) by (rewrite !len_app, Lpre; fold L; lia).
  replace (1 + hl + L + len rest - (1 + hl) <? L) with false by (symmetry; apply Z.ltb_ge; lia).
  replace (RECVBUF <? 1 + hl + L) with false by (symmetry; apply Z.ltb_ge; lia). cbn [orb].
  change (3 =? CT_CONNACK) with false. change (3 =? CT_PUBLISH) with true. cbv iota.
  rewrite unpack_publish_fixed. cbv zeta. rewrite F1, F2, F3, B1.
  replace (qos =? 3) with false by (symmetry; apply Z.eqb_neq; lia).
  replace (L <? 2) with false by (symmetry; apply Z.ltb_ge; lia).
  destruct (0 <? qos) eqn:Q0.
  - apply Z.ltb_lt in Q0. rewrite (B2 Q0).
    replace (L <? len topic + 4) with false by (symmetry; apply Z.ltb_ge; lia).
    rewrite u32_small by lia. f_equal; [f_equal; lia|lia].
  - replace (L <? len topic + 2) with false by (symmetry; apply Z.ltb_ge; lia).
    rewrite u32_small by lia. f_equal; [f_equal; lia|lia].
Qed.

(* ------------------------------------------------------------------------------------------ *)
(* exact delivery *)
Definition ack_entry (qos pid : Z) : list entry :=
  if qos =? 1 then [new_entry CT_PUBACK pid 4] else if qos =? 2 then [new_entry CT_PUBREC pid 4] else [].
(* the queue accepts the acknowledgement without compaction, and a QoS 2 id is not a retransmission *)
Definition accepts (q : list entry) (qos pid : Z) : Prop :=
  (0 < qos -> 4 <= currsz q) /\ (qos = 2 -> existsb (matches CT_PUBREC (Some pid)) q = false).

Lemma handle_publish q dup qos retain toff tlen poff plen pid : 0 <= qos <= 2 -> accepts q qos pid ->
  handle (RPublish dup qos retain toff tlen poff plen (if 0 <? qos then pid else 0)) q = (q ++ ack_entry qos pid, true, None, false).
Proof.
  intros Q [A1 A2]. cbn [handle]. unfold ack_entry.
  destruct (qos =? 1) eqn:Q1.
  - apply Z.eqb_eq in Q1. subst. cbn [Z.ltb Z.compare]. rewrite try_pack_fits by (apply A1; lia). reflexivity.
  - destruct (qos =? 2) eqn:Q2.
    + apply Z.eqb_eq in Q2. subst. cbn [Z.ltb Z.compare]. rewrite (A2 eq_refl), try_pack_fits by (apply A1; lia). reflexivity.
    + rewrite app_nil_r. reflexivity.
Qed.

Lemma parse_empty q : parse_stream q [] = {| d_q := q; d_rest := []; d_moved := []; d_out := []; d_stop := Wait; d_tight := false |}.
Proof.
  unfold parse_stream. rewrite drain_S. change (unpack FIXED []) with UInc.
  pose proof (cf_recvbuf_lo consts_ok). replace (RECVBUF <=? len []) with false by (symmetry; apply Z.leb_gt; rewrite len_nil; lia).
  reflexivity.
Qed.

(* a well-formed PUBLISH at the head of a stream is delivered, acknowledged in the queue, and parsing goes on *)
Theorem C16_exact_delivery_stream_thm : forall q dup qos retain pid topic payload rest,
  wf_publish dup qos retain pid topic payload -> bytes_ok rest -> accepts q qos pid ->
  let toff := pub_toff qos topic payload in
  let poff := toff + len topic + (if 0 <? qos then 2 else 0) in
  let d := parse_stream q (enc_publish dup qos retain pid topic payload ++ rest) in
  let d' := parse_stream (q ++ ack_entry qos pid) rest in
  rx_of (d_out d) = RxMsg dup qos retain toff (len topic) poff (len payload) (topic ++ payload) :: rx_of (d_out d') /\
  d_q d = d_q d' /\ d_rest d = d_rest d' /\ d_stop d = d_stop d' /\ d_tight d = d_tight d'.
Proof.
  intros q dup qos retain pid topic payload rest W OKr AC. cbv zeta.
  destruct (unpack_enc_publish dup qos retain pid topic payload rest W) as (U & S1 & S2 & TOT).
  set (enc := enc_publish dup qos retain pid topic payload) in *.
  unfold parse_stream. rewrite drain_S, U, (handle_publish q) by (destruct W; assumption). cbv zeta.
  pose proof (len_nonneg rest) as LR. pose proof (len_nonneg enc) as LE.
  replace (len (enc ++ rest) <? len enc) with false by (symmetry; apply Z.ltb_ge; rewrite len_app; lia).
  rewrite drop_app_exact.
  rewrite (drain_fuel (length (enc ++ rest)) (S (length rest)) (q ++ ack_entry qos pid) rest OKr) by
    (rewrite ?app_length; unfold enc, enc_publish; cbn [app length]; lia).
  cbn [d_q d_rest d_out d_stop d_tight msg_of app rx_of orb]. rewrite S1, S2. auto.
Qed.

Theorem C16_exact_delivery_thm : forall s segs dup qos retain pid topic payload,
  ready s -> buf s = [] -> Forall bytes_ok segs ->
  wf_publish dup qos retain pid topic payload -> accepts (mq s) qos pid ->
  concat segs = enc_publish dup qos retain pid topic payload ->
  let toff := pub_toff qos topic payload in
  let poff := toff + len topic + (if 0 <? qos then 2 else 0) in
  let r := run_from FIXED s (map Seg segs) in
  rx_of (snd r) = [RxMsg dup qos retain toff (len topic) poff (len payload) (topic ++ payload)] /\
  ready (fst r) /\ buf (fst r) = [] /\ qeq (mq (fst r)) (mq s ++ ack_entry qos pid).
Proof.
  intros s segs dup qos retain pid topic payload R B OK W AC CC. cbv zeta.
  pose proof (C16_refines_thm segs s (mq s) R OK (qeq_refl _)) as RF. cbv zeta in RF. rewrite B, CC in RF. cbn [app] in RF.
  pose proof (C16_exact_delivery_stream_thm (mq s) dup qos retain pid topic payload [] W ltac:(constructor) AC) as ED.
  cbv zeta in ED. rewrite app_nil_r, parse_empty in ED. cbn [d_q d_rest d_out d_stop d_tight rx_of] in ED.
  destruct ED as (E1 & E2 & E3 & E4 & E5). specialize (RF E5). destruct RF as (F1 & F2 & F3 & F4 & _).
  rewrite E1, E4 in F1. rewrite E2 in F2. destruct (F3 E4) as [F5 F6]. rewrite E3 in F6. auto.
Qed.

(* ------------------------------------------------------------------------------------------ *)
(* malformed packets *)
(* MQTT 3.1.1 server-to-client packets: what is malformed about a complete packet with control type ct,
   flags fl and variable header + payload `body` (reserved type, type a server never sends, wrong flags,
   QoS 3, impossible lengths) *)
Definition malformedb (ct fl : Z) (body : list Z) : bool :=
  let L := len body in let qos := (fl / 2) mod 4 in
  if (ct =? 0) || (ct =? 15) then true
  else if ct =? 3 then (qos =? 3) || (L <? 2) || (L <? be16 body 0 + (if 0 <? qos then 4 else 2))
  else if (ct =? 1) || (ct =? 8) || (ct =? 10) || (ct =? 12) || (ct =? 14) then true
  else negb (fl =? req_flags ct) || (if ct =? 9 then L <? 3 else if ct =? 13 then negb (L =? 0) else negb (L =? 2)).

Ltac plit p := lazymatch p with xH => idtac | xO ?q => plit q | xI ?q => plit q end.
Ltac lit x := lazymatch x with Z0 => idtac | Zpos ?p => plit p | Zneg ?p => plit p end.
Ltac eval_eqb :=
  repeat match goal with
  | |- context [?a =? ?b] => lit a; lit b;
      let v := eval vm_compute in (a =? b) in change (a =? b) with v
  end.
Ltac eval_eqb_in H :=
  repeat match type of H with
  | context [?a =? ?b] => lit a; lit b;
      let v := eval vm_compute in (a =? b) in change (a =? b) with v in H
  end.
Ltac unfold_ct := unfold CT_CONNECT, CT_CONNACK, CT_PUBLISH, CT_PUBACK, CT_PUBREC, CT_PUBREL, CT_PUBCOMP, CT_SUBSCRIBE,
  CT_SUBACK, CT_UNSUBSCRIBE, CT_UNSUBACK, CT_PINGREQ, CT_PINGRESP, CT_DISCONNECT.

Ltac crunch := repeat first [ progress eval_eqb | progress cbv beta iota | progress cbn [orb andb negb]
  | match goal with C : (_ <? _) = false |- _ => rewrite C end ].
Ltac solve_mal M :=
  crunch;
  first [ solve [eexists; reflexivity]
        | match goal with |- context [?x =? ?k] =>
            let E := fresh "E" in destruct (x =? k) eqn:E; rewrite ?E in M; cbn [negb orb andb] in M; try discriminate M; solve_mal M end
        | match goal with |- context [?x <? ?k] =>
            let E := fresh "E" in destruct (x <? k) eqn:E; rewrite ?E in M; cbn [negb orb andb] in M; try discriminate M; solve_mal M end ].

Lemma be16_app_r (a b : list Z) o : 0 <= o -> be16 (a ++ b) (len a + o) = be16 b o.
Proof. intros. unfold be16. rewrite <- Z.add_assoc, !nthz_app_r by lia. reflexivity. Qed.

Lemma unpack_malformed ct fl body rest : 0 <= ct < 16 -> 0 <= fl < 16 -> bytes_ok body ->
  1 + len (enc_rl (len body)) + len body <= RECVBUF -> malformedb ct fl body = true ->
  exists e, unpack FIXED ((ct * 16 + fl) :: enc_rl (len body) ++ body ++ rest) = UErr e.
Proof.
  intros Hc Hf OK FIT M. pose proof consts_ok as CF. pose proof (cf_recvbuf_hi CF) as RH.
  pose proof (len_nonneg body) as LB; pose proof (len_nonneg rest) as LR. pose proof (len_nonneg (enc_rl (len body))) as LE.
  set (L := len body) in *. assert (HL : 0 <= L < 16384) by lia.
  unfold unpack. rewrite unpack_header_enc by assumption. unfold hfin. rewrite rule_table by assumption.
  set (pre := (ct * 16 + fl) :: enc_rl L).
  change ((ct * 16 + fl) :: enc_rl L ++ body ++ rest) with (pre ++ body ++ rest).
  assert (Lpre : len pre = 1 + len (enc_rl L)) by (unfold pre; rewrite len_cons; reflexivity).
  rewrite <- Lpre.
  assert (C1 : (len (pre ++ body ++ rest) - len pre <? L) = false) by (apply Z.ltb_ge; rewrite !len_app; fold L; lia).
  assert (C2 : (RECVBUF <? len pre + L) = false) by (apply Z.ltb_ge; lia).
  assert (B0 : be16 (pre ++ body ++ rest) (len pre) = be16 (body ++ rest) 0)
    by (replace (len pre) with (len pre + 0) at 1 by lia; apply be16_app_r; lia).
  assert (B1 : 2 <= L -> be16 (body ++ rest) 0 = be16 body 0) by (intros; apply be16_app_l; fold L; lia).
  unfold malformedb in M. fold L in M. unfold spec_rule, req_flags in *.
  unfold_ct.
  destruct (Z.eq_dec ct 3) as [C3|C3].
  { (* PUBLISH *)
    subst ct. crunch. eval_eqb_in M. cbn [orb andb negb] in M.
    rewrite unpack_publish_fixed. cbv zeta. rewrite B0.
    destruct ((fl / 2) mod 4 =? 3); [eexists; reflexivity|]. cbn [orb] in M.
    destruct (L <? 2) eqn:L2; [eexists; reflexivity|]. apply Z.ltb_ge in L2. cbn [orb] in M.
    rewrite (B1 L2), M. eexists; reflexivity. }
  assert (C : ct = 0 \/ ct = 1 \/ ct = 2 \/ ct = 4 \/ ct = 5 \/ ct = 6 \/ ct = 7 \/ ct = 8 \/ ct = 9 \/ ct = 10 \/
              ct = 11 \/ ct = 12 \/ ct = 13 \/ ct = 14 \/ ct = 15) by lia.
  repeat (destruct C as [C | C]); subst ct; eval_eqb_in M; cbn [orb andb negb] in M; solve_mal M.
Qed.

Theorem C16_malformed_errors_stream_thm : forall q ct fl body rest,
  0 <= ct < 16 -> 0 <= fl < 16 -> bytes_ok body ->
  1 + len (enc_rl (len body)) + len body <= RECVBUF -> malformedb ct fl body = true ->
  let d := parse_stream q ((ct * 16 + fl) :: enc_rl (len body) ++ body ++ rest) in
  d_out d = [] /\ (exists e, d_stop d = Failed e) /\ d_q d = q /\ d_tight d = false.
Proof.
  intros q ct fl body rest Hc Hf OK FIT M. cbv zeta.
  destruct (unpack_malformed ct fl body rest Hc Hf OK FIT M) as [e U].
  unfold parse_stream. rewrite drain_S, U. cbn. eauto.
Qed.

(* a length field of more than four bytes *)
Theorem C16_long_length_thm : forall q b0 x1 x2 x3 x4 rest,
  128 <= x1 -> 128 <= x2 -> 128 <= x3 -> 128 <= x4 ->
  let d := parse_stream q (b0 :: x1 :: x2 :: x3 :: x4 :: rest) in
  d_out d = [] /\ d_stop d = Failed E_INVALID_REMAINING_LENGTH /\ d_q d = q.
Proof.
  intros q b0 x1 x2 x3 x4 rest H1 H2 H3 H4. cbv zeta. unfold parse_stream. rewrite drain_S.
  assert (U : unpack FIXED (b0 :: x1 :: x2 :: x3 :: x4 :: rest) = UErr E_INVALID_REMAINING_LENGTH).
  { unfold unpack, unpack_header. rewrite !len_cons. pose proof (len_nonneg rest).
    replace (1 + (1 + (1 + (1 + (1 + len rest)))) =? 0) with false by (symmetry; apply Z.eqb_neq; lia).
    replace (1 + (1 + (1 + (1 + (1 + len rest)))) <=? 1) with false by (symmetry; apply Z.leb_gt; lia).
    replace (1 + (1 + (1 + (1 + (1 + len rest)))) <=? 2) with false by (symmetry; apply Z.leb_gt; lia).
    replace (1 + (1 + (1 + (1 + (1 + len rest)))) <=? 3) with false by (symmetry; apply Z.leb_gt; lia).
    replace (1 + (1 + (1 + (1 + (1 + len rest)))) <=? 4) with false by (symmetry; apply Z.leb_gt; lia).
    change (nthz (b0 :: x1 :: x2 :: x3 :: x4 :: rest) 1) with x1. change (nthz (b0 :: x1 :: x2 :: x3 :: x4 :: rest) 2) with x2.
    change (nthz (b0 :: x1 :: x2 :: x3 :: x4 :: rest) 3) with x3. change (nthz (b0 :: x1 :: x2 :: x3 :: x4 :: rest) 4) with x4.
    replace (x1 <? 128) with false by (symmetry; apply Z.ltb_ge; lia). replace (x2 <? 128) with false by (symmetry; apply Z.ltb_ge; lia).
    replace (x3 <? 128) with false by (symmetry; apply Z.ltb_ge; lia). replace (x4 <? 128) with false by (symmetry; apply Z.ltb_ge; lia).
    reflexivity. }
  rewrite U. cbn. auto.
Qed.

(* acknowledgement of something never sent *)
Lemma ack_first_none p q : existsb p q = false -> ack_first p q = None.
Proof.
  induction q as [|e q IH]; [reflexivity|]. cbn [existsb ack_first]. intros H. apply orb_false_l' in H. destruct H as [-> H].
  rewrite (IH H). reflexivity.
Qed.
Definition outstanding (q : list entry) (r : resp) : bool :=
  match r with
  | RConnack _ => existsb (matches CT_CONNECT None) q
  | RPubxxx ct pid =>
      if ct =? CT_PUBACK then existsb (matches CT_PUBLISH (Some pid)) q
      else if ct =? CT_PUBREC then existsb (matches CT_PUBREL (Some pid)) q || existsb (matches CT_PUBLISH (Some pid)) q
      else if ct =? CT_PUBREL then existsb (matches CT_PUBREC (Some pid)) q
      else existsb (matches CT_PUBREL (Some pid)) q
  | RSuback pid _ => existsb (matches CT_SUBSCRIBE (Some pid)) q
  | RUnsuback pid => existsb (matches CT_UNSUBSCRIBE (Some pid)) q
  | RPingresp => existsb (matches CT_PINGREQ None) q
  | RPublish _ _ _ _ _ _ _ _ => true
  end.
Theorem C16_unknown_ack_thm : forall q r, outstanding q r = false -> handle r q = (q, false, Some E_ACK_OF_UNKNOWN, false).
Proof.
  intros q r H. destruct r as [code|dup qos retain toff tlen poff plen pid|ct pid|pid code0|pid|]; cbn [outstanding handle] in *.
  - rewrite (ack_first_none _ _ H). reflexivity.
  - discriminate.
  - destruct (ct =? CT_PUBACK); [rewrite (ack_first_none _ _ H); reflexivity|].
    destruct (ct =? CT_PUBREC).
    { apply orb_false_l' in H. destruct H as [H1 H2]. rewrite H1, (ack_first_none _ _ H2). reflexivity. }
    destruct (ct =? CT_PUBREL); rewrite (ack_first_none _ _ H); reflexivity.
  - rewrite (ack_first_none _ _ H). reflexivity.
  - rewrite (ack_first_none _ _ H). reflexivity.
  - rewrite (ack_first_none _ _ H). reflexivity.
Qed.

(* malformed packet at a packet boundary, any segmentation: protocol error + reconnect, no callback *)
Theorem C16_malformed_errors_thm : forall s segs ct fl body rest,
  ready s -> buf s = [] -> Forall bytes_ok segs ->
  0 <= ct < 16 -> 0 <= fl < 16 -> bytes_ok body ->
  1 + len (enc_rl (len body)) + len body <= RECVBUF -> malformedb ct fl body = true ->
  concat segs = (ct * 16 + fl) :: enc_rl (len body) ++ body ++ rest ->
  let r := run_from FIXED s (map Seg segs) in
  (exists e, rx_of (snd r) = [RxErr e; RxReconnect]) /\ halted (fst r) = true.
Proof.
  intros s segs ct fl body rest R B OK Hc Hf OKb FIT M CC. cbv zeta.
  pose proof (C16_refines_thm segs s (mq s) R OK (qeq_refl _)) as RF. cbv zeta in RF. rewrite B, CC in RF. cbn [app] in RF.
  pose proof (C16_malformed_errors_stream_thm (mq s) ct fl body rest Hc Hf OKb FIT M) as ME. cbv zeta in ME.
  destruct ME as (E1 & [e E2] & E3 & E4). specialize (RF E4). destruct RF as (F1 & F2 & F3 & F4 & _).
  rewrite E1, E2 in F1. cbn [rx_of rx_of_stop app] in F1. split; [eauto|]. apply F4. rewrite E2. discriminate.
Qed.

(* ------------------------------------------------------------------------------------------ *)
(* the unrepaired code: witnesses (each replayed on the real code, see corpus/C16) *)
Definition OLD_RECV : fixes := {| fx_recv := false; fx_publen := true; fx_pinglen := true |}.
Definition OLD_PUBLEN : fixes := {| fx_recv := true; fx_publen := false; fx_pinglen := true |}.
Definition OLD_PINGLEN : fixes := {| fx_recv := true; fx_publen := true; fx_pinglen := false |}.

Definition w_topic : list Z := [115;117;112;108;97;47;100;101;118;105;99;101;115;47;120;47;99;104;97;110;110;101;108;115;47;48;47;115;101;116;47;111;110].
Definition w_publish : list Z := enc_publish 0 0 0 0 w_topic [49].
Definition w_split : list ev := [Start 105; Seg [32;2;0;0]; Seg (firstn 10 w_publish); Seg (skipn 10 w_publish)].
Definition w_toplen : list ev := [Start 105; Seg [32;2;0;0]; Seg ([48; 55; 3; 232] ++ repeat 65 53)].
Definition w_qos3 : list ev := [Start 105; Seg [32;2;0;0]; Seg [54; 6; 0; 1; 97; 0; 5; 120]].
Definition w_short : list ev := [Start 105; Seg [32;2;0;0]; Seg [48; 3; 0; 1; 97]].
Definition w_ping : list ev := [Start 105; Ping; Seg [32;2;0;0]; Seg [208; 6; 48; 4; 0; 1; 97; 98]].

Theorem C16_old_code_refuted_thm :
  (* (a) a PUBLISH split after 10 bytes is lost by the old receive callback, delivered by the repaired one *)
  rx_of (run OLD_RECV w_split) = [RxErr E_CONTROL_INVALID_FLAGS; RxReconnect] /\
  rx_of (run FIXED w_split) = [RxMsg 0 0 0 4 33 37 1 (w_topic ++ [49])] /\
  (* (b) topic length 1000 in a 57-byte packet: callback with slices outside the data, then memmove with a negative size *)
  rx_of (run OLD_PUBLEN w_toplen) = [RxMsg 0 0 0 4 1000 1004 4294966349 (repeat 65 53); RxFault] /\
  rx_of (run FIXED w_toplen) = [RxErr E_MALFORMED_RESPONSE; RxReconnect] /\
  (* QoS 3 is delivered; a well-formed PUBLISH with remaining length 3 is rejected *)
  rx_of (run OLD_PUBLEN w_qos3) = [RxMsg 0 3 0 4 1 7 1 [97; 120]] /\
  rx_of (run FIXED w_qos3) = [RxErr E_PUBLISH_FORBIDDEN_QOS; RxReconnect] /\
  rx_of (run OLD_PUBLEN w_short) = [RxErr E_MALFORMED_RESPONSE; RxReconnect] /\
  rx_of (run FIXED w_short) = [RxMsg 0 0 0 4 1 5 0 [97]] /\
  (* (c) the body of a PINGRESP with a non-zero length is parsed as further packets *)
  rx_of (run OLD_PINGLEN w_ping) = [RxMsg 0 0 0 4 1 5 1 [97; 98]] /\
  rx_of (run FIXED w_ping) = [RxErr E_MALFORMED_RESPONSE; RxReconnect].
Proof. vm_compute. repeat split; reflexivity. Qed.

(* ------------------------------------------------------------------------------------------ *)
(* acknowledgements go out at the end of the same mqtt_sync *)
Theorem C16_acks_sent_thm : forall s, halted (fst (sync FIXED s)) = false ->
  let d := drain (S (length (buf s))) FIXED (mq s) (buf s) in
  snd (sync FIXED s) = d_out d ++ map sent_out (filter unsent (d_q d)) /\
  forallb (fun e => negb (unsent e)) (mq (fst (sync FIXED s))) = true.
Proof.
  intros s. cbv zeta. unfold sync. destruct (d_stop (drain (S (length (buf s))) FIXED (mq s) (buf s))).
  - intros _. pose proof (send_all_sent (d_q (drain (S (length (buf s))) FIXED (mq s) (buf s)))) as A.
    destruct (send _) as [q' so] eqn:SE. unfold send in SE. inversion SE; subst. cbn [fst snd mq]. auto.
  - cbn [fst halted]. discriminate.
  - cbn [fst halted]. discriminate.
Qed.

(* ------------------------------------------------------------------------------------------ *)
(* exact delivery, wire side: the acknowledgement with the packet id of the PUBLISH is what goes out *)
Lemma app_eq_len {A} (l1 l3 l2 l4 : list A) : length l1 = length l3 -> l1 ++ l2 = l3 ++ l4 -> l1 = l3 /\ l2 = l4.
Proof.
  revert l3. induction l1 as [|x l1 IH]; intros [|y l3] L E; try discriminate; [auto|]. cbn [app] in E. apply cons_inj in E.
  destruct E as [-> E]. destruct (IH l3 ltac:(cbn in L; lia) E) as [-> ->]. auto.
Qed.

Theorem C16_exact_delivery_acked_thm : forall s segs dup qos retain pid topic payload,
  ready s -> buf s = [] -> Forall bytes_ok segs -> all_sent (mq s) ->
  wf_publish dup qos retain pid topic payload -> accepts (mq s) qos pid ->
  concat segs = enc_publish dup qos retain pid topic payload ->
  sents (snd (run_from FIXED s (map Seg segs))) = map sent_out (ack_entry qos pid).
Proof.
  intros s segs dup qos retain pid topic payload R B OK AS W AC CC.
  pose proof (C16_refines_thm segs s (mq s) R OK (qeq_refl _)) as RF. cbv zeta in RF. rewrite B, CC in RF. cbn [app] in RF.
  pose proof (C16_exact_delivery_stream_thm (mq s) dup qos retain pid topic payload [] W ltac:(constructor) AC) as ED.
  cbv zeta in ED. rewrite app_nil_r, parse_empty in ED. cbn [d_q d_rest d_out d_stop d_tight rx_of] in ED.
  destruct ED as (E1 & E2 & E3 & E4 & E5). specialize (RF E5). destruct RF as (_ & F2 & F3 & _ & FL).
  rewrite E2 in F2. destruct (F3 E4) as [[_ _ _ RH] _]. destruct (FL AS RH) as (AR & a & nw & EQ & CA & SL).
  rewrite <- SL. rewrite EQ in F2, AR. unfold qeq in F2. rewrite !map_app in F2.
  assert (LA : length (map strip a) = length (map strip (mq s))).
  { rewrite !map_length. apply (f_equal (@length _)) in CA. rewrite !map_length in CA. exact CA. }
  destruct (app_eq_len _ _ _ _ LA F2) as [_ N].
  unfold all_sent in AR. rewrite forallb_app in AR. apply andb_true_iff in AR. destruct AR as [_ AN].
  unfold ack_entry in *. destruct (qos =? 1).
  - destruct nw as [|e [|? ?]]; try discriminate. cbn [map] in N. apply cons_inj in N. destruct N as [N _].
    unfold strip, new_entry in N; cbn in N. inversion N as [[N1 N2 N3 N4]].
    cbn [forallb] in AN. rewrite andb_true_r in AN. unfold unsent in AN. rewrite N4 in AN. cbn [negb andb] in AN.
    apply negb_true_iff, negb_false_iff in AN. unfold slog. cbn [filter]. rewrite AN. cbn [map]. unfold sent_out, new_entry. cbn [ect epid].
    rewrite N1, N2. reflexivity.
  - destruct (qos =? 2).
    + destruct nw as [|e [|? ?]]; try discriminate. cbn [map] in N. apply cons_inj in N. destruct N as [N _].
      unfold strip, new_entry in N; cbn in N. inversion N as [[N1 N2 N3 N4]].
      cbn [forallb] in AN. rewrite andb_true_r in AN. unfold unsent in AN. rewrite N4 in AN. cbn [negb andb] in AN.
      apply negb_true_iff, negb_false_iff in AN. unfold slog. cbn [filter]. rewrite AN. cbn [map]. unfold sent_out, new_entry. cbn [ect epid].
      rewrite N1, N2. reflexivity.
    + destruct nw; [reflexivity|discriminate].
Qed.

(* ------------------------------------------------------------------------------------------ *)
(* acknowledgement of a QoS 1 PUBLISH the device sent *)
Lemma ack_first_some p q : existsb p q = true -> exists q', ack_first p q = Some q'.
Proof.
  induction q as [|e q IH]; intros H; cbn [existsb ack_first] in *; [discriminate|].
  destruct (p e); [eauto|]. cbn [orb] in H. destruct (IH H) as [q' ->]. eauto.
Qed.

Lemma unpack_puback pid rest : 0 <= pid < 65536 ->
  unpack FIXED (64 :: 2 :: pid / 256 :: pid mod 256 :: rest) = UOk (RPubxxx CT_PUBACK pid) 4.
Proof.
  intros H. pose proof (cf_recvbuf_lo consts_ok) as RL.
  change (64 :: 2 :: pid / 256 :: pid mod 256 :: rest) with ((4 * 16 + 0) :: enc_rl 2 ++ (pid / 256 :: pid mod 256 :: rest)).
  unfold unpack. rewrite unpack_header_enc by lia. unfold hfin. rewrite rule_table by lia.
  change (spec_rule 4 0 =? 0) with true. cbv iota. change (len (enc_rl 2)) with 1. change (enc_rl 2) with [2]. cbn [app].
  rewrite !len_cons. pose proof (len_nonneg rest).
  replace (1 + (1 + (1 + (1 + len rest))) - (1 + 1) <? 2) with false by (symmetry; apply Z.ltb_ge; lia).
  replace (RECVBUF <? 1 + 1 + 2) with false by (symmetry; apply Z.ltb_ge; lia). cbn [orb].
  unfold_ct. change (4 =? 2) with false. change (4 =? 3) with false. change (4 =? 4) with true. cbn [orb]. change (2 =? 2) with true. cbn [negb].
  f_equal. f_equal. unfold be16.
  change (nthz (4 * 16 + 0 :: 2 :: pid / 256 :: pid mod 256 :: rest) (1 + 1)) with (pid / 256).
  change (nthz (4 * 16 + 0 :: 2 :: pid / 256 :: pid mod 256 :: rest) (1 + 1 + 1)) with (pid mod 256).
  pose proof (Z.div_mod pid 256 ltac:(lia)). lia.
Qed.

Theorem C16_puback_accepted_thm : forall q pid rest,
  0 <= pid < 65536 -> bytes_ok rest -> existsb (matches CT_PUBLISH (Some pid)) q = true ->
  exists q', ack_first (matches CT_PUBLISH (Some pid)) q = Some q' /\
    let d := parse_stream q (64 :: 2 :: pid / 256 :: pid mod 256 :: rest) in
    let d' := parse_stream q' rest in
    d_out d = d_out d' /\ d_q d = d_q d' /\ d_rest d = d_rest d' /\ d_stop d = d_stop d' /\ d_tight d = d_tight d'.
Proof.
  intros q pid rest HP OK EX. destruct (ack_first_some _ _ EX) as [q' A]. exists q'. split; [exact A|]. cbv zeta.
  unfold parse_stream. rewrite drain_S, (unpack_puback pid rest HP). cbn [handle]. rewrite Z.eqb_refl, A. cbv zeta.
  rewrite !len_cons. pose proof (len_nonneg rest).
  replace (1 + (1 + (1 + (1 + len rest))) <? 4) with false by (symmetry; apply Z.ltb_ge; lia).
  change (drop 4 (64 :: 2 :: pid / 256 :: pid mod 256 :: rest)) with rest.
  rewrite (drain_fuel (length (64 :: 2 :: pid / 256 :: pid mod 256 :: rest)) (S (length rest)) q' rest OK) by (cbn [length]; lia).
  cbn [d_q d_rest d_out d_stop d_tight app orb]. auto.
Qed.

(* ------------------------------------------------------------------------------------------ *)
(* when is the send queue compacted while receiving, and what does compaction do *)
(* room for k more acknowledgements (4 bytes + one queue record each) *)
Definition room (q : list entry) (k : Z) : Prop := (len q + 1 + k) * QSZ + used q + 4 * k <= SENDBUF.

Lemma room_currsz q k : room q k -> 1 <= k -> 4 <= currsz q.
Proof.
  unfold room, currsz. intros R K. pose proof (cf_qsz consts_ok) as QP.
  assert (k * QSZ >= QSZ) by nia.
  destruct (SENDBUF - (len q + 1) * QSZ <=? used q) eqn:E; [apply Z.leb_le in E|apply Z.leb_gt in E]; nia.
Qed.
Lemma used_app a b : used (a ++ b) = used a + used b.
Proof. induction a as [|e a IH]; [reflexivity|]. cbn [app used fold_right]. fold (used (a ++ b)). fold (used a). rewrite IH. lia. Qed.
Lemma room_append q k ct pid : room q k -> room (q ++ [new_entry ct pid 4]) (k - 1).
Proof. unfold room. rewrite len_app, used_app. change (len [new_entry ct pid 4]) with 1. change (used [new_entry ct pid 4]) with (4 + 0). nia. Qed.
Lemma room_less q k k' : room q k -> 0 <= k' <= k -> room q k'.
Proof. unfold room. pose proof (cf_qsz consts_ok). nia. Qed.
Lemma ack_first_measure p q q' : ack_first p q = Some q' -> len q' = len q /\ used q' = used q.
Proof.
  revert q'. induction q as [|e q IH]; intros q' H; cbn [ack_first] in H; [discriminate|]. destruct (p e).
  - inversion H; subst. rewrite !len_cons. cbn [used fold_right]. auto.
  - destruct (ack_first p q) as [r|]; [|discriminate]. inversion H; subst. destruct (IH r eq_refl) as [A B].
    rewrite !len_cons, A. cbn [used fold_right]. fold (used r). fold (used q). rewrite B. auto.
Qed.
Lemma room_acked p q q' k : ack_first p q = Some q' -> room q k -> room q' k.
Proof. intros A R. destruct (ack_first_measure _ _ _ A) as [L U]. unfold room in *. rewrite L, U. exact R. Qed.

Lemma unpack_pubxxx_consumed b ct pid c : bytes_ok b -> unpack FIXED b = UOk (RPubxxx ct pid) c -> 4 <= c.
Proof.
  intros OK. unfold unpack. destruct (unpack_header b) as [|e|t fl rl h] eqn:H; try discriminate.
  destruct (header_shape b t fl rl h OK H) as (Hh & _).
  destruct (_ || _); [discriminate|].
  destruct (t =? CT_CONNACK). { destruct (negb _); [discriminate|]. destruct (negb _); [discriminate|]. destruct (5 <? _); discriminate. }
  destruct (t =? CT_PUBLISH).
  { rewrite unpack_publish_fixed. cbv zeta. destruct (_ =? 3); [discriminate|]. destruct (rl <? 2); [discriminate|]. destruct (rl <? _); discriminate. }
  destruct (_ || _ || _ || _). { destruct (negb _); [discriminate|]. intros Q; inversion Q; subst. lia. }
  destruct (t =? CT_SUBACK). { destruct (rl <? 3); discriminate. }
  destruct (t =? CT_UNSUBACK). { destruct (negb _); discriminate. }
  destruct (t =? CT_PINGRESP). { destruct (_ && _); discriminate. }
  discriminate.
Qed.

(* one packet: no compaction, and the measure (room for k acks, 4k >= bytes left) is kept *)
Lemma handle_room b r c q k : bytes_ok b -> unpack FIXED b = UOk r c -> room q k -> 0 <= k -> len b <= 4 * k ->
  match handle r q with (q', _, _, t) => t = false /\ exists k', room q' k' /\ 0 <= k' /\ len b - c <= 4 * k' end.
Proof.
  intros OK U R K L. destruct (unpack_consumed b r c OK U) as [C1 C2].
  assert (STAY : forall q', room q' k -> exists k', room q' k' /\ 0 <= k' /\ len b - c <= 4 * k') by (intros; exists k; repeat split; auto; lia).
  assert (APP : 4 <= c -> forall q1 ct pid, room q1 k ->
          match try_pack ct pid 4 q1 with (Some q', t) => t = false /\ exists k', room q' k' /\ 0 <= k' /\ len b - c <= 4 * k' | (None, _) => False end).
  { intros C4 q1 ct pid R1. assert (K1 : 1 <= k) by lia. rewrite try_pack_fits by (eapply room_currsz; eauto).
    split; [reflexivity|]. exists (k - 1). split; [apply room_append; exact R1|]. lia. }
  destruct r as [code|dup qos retain toff tlen poff plen pid|ct pid|pid code0|pid|]; cbn [handle].
  - destruct (ack_first _ q) as [q'|] eqn:A; [|split; auto]. pose proof (room_acked _ _ _ _ A R).
    destruct (code =? CONNACK_ACCEPTED); [|destruct (code =? CONNACK_ID_REJECTED)]; split; auto.
  - destruct (unpack_publish_slices _ _ _ _ _ _ _ _ _ _ OK U) as (S1 & S2 & S3 & S4 & S5 & S6 & S7 & S8 & S9).
    destruct (qos =? 1) eqn:Q1.
    { apply Z.eqb_eq in Q1. destruct (S9 ltac:(lia)) as [P1 _]. specialize (APP ltac:(lia) q CT_PUBACK pid R).
      destruct (try_pack CT_PUBACK pid 4 q) as [[q'|] t]; [exact APP|contradiction]. }
    destruct (qos =? 2) eqn:Q2; [|split; auto].
    apply Z.eqb_eq in Q2. destruct (S9 ltac:(lia)) as [P1 _].
    destruct (existsb _ q); [split; auto|]. specialize (APP ltac:(lia) q CT_PUBREC pid R).
    destruct (try_pack CT_PUBREC pid 4 q) as [[q'|] t]; [exact APP|contradiction].
  - pose proof (unpack_pubxxx_consumed b ct pid c OK U) as C4.
    destruct (ct =? CT_PUBACK). { destruct (ack_first _ q) as [q'|] eqn:A; split; auto. apply STAY. eapply room_acked; eauto. }
    destruct (ct =? CT_PUBREC).
    { destruct (existsb _ q); [split; auto|]. destruct (ack_first _ q) as [q'|] eqn:A; [|split; auto].
      specialize (APP C4 q' CT_PUBREL pid (room_acked _ _ _ _ A R)). destruct (try_pack CT_PUBREL pid 4 q') as [[q''|] t]; [exact APP|contradiction]. }
    destruct (ct =? CT_PUBREL).
    { destruct (ack_first _ q) as [q'|] eqn:A; [|split; auto].
      specialize (APP C4 q' CT_PUBCOMP pid (room_acked _ _ _ _ A R)). destruct (try_pack CT_PUBCOMP pid 4 q') as [[q''|] t]; [exact APP|contradiction]. }
    destruct (ack_first _ q) as [q'|] eqn:A; split; auto. apply STAY. eapply room_acked; eauto.
  - destruct (ack_first _ q) as [q'|] eqn:A; [|split; auto]. pose proof (room_acked _ _ _ _ A R).
    destruct (code0 =? SUBACK_FAILURE); split; auto.
  - destruct (ack_first _ q) as [q'|] eqn:A; split; auto. apply STAY. eapply room_acked; eauto.
  - destruct (ack_first _ q) as [q'|] eqn:A; split; auto. apply STAY. eapply room_acked; eauto.
Qed.

Lemma drain_room f : forall q b k, bytes_ok b -> (length b < f)%nat -> room q k -> 0 <= k -> len b <= 4 * k ->
  d_tight (drain f FIXED q b) = false.
Proof.
  induction f as [|n IH]; intros q b k OK LF R K L; [lia|]. rewrite drain_S.
  destruct (unpack FIXED b) as [|e|r c] eqn:U; try reflexivity.
  pose proof (handle_room b r c q k OK U R K L) as HR. destruct (unpack_consumed b r c OK U) as [C1 C2].
  destruct (handle r q) as [[[q' dl] oe] t]. destruct HR as (-> & k' & R' & K' & L'). cbv zeta.
  destruct (len b <? c); [reflexivity|]. destruct oe; [reflexivity|]. cbn [d_tight orb].
  pose proof (length_drop_lt b c ltac:(lia)).
  apply (IH q' (drop c b) k'); auto; [apply bytes_ok_drop; exact OK|lia|rewrite len_drop by lia; lia].
Qed.

(* static sufficient condition for the `d_tight = false` hypothesis of the segmentation theorems *)
Theorem C16_room_no_compaction_thm : forall q stream k,
  bytes_ok stream -> room q k -> 0 <= k -> len stream <= 4 * k -> d_tight (parse_stream q stream) = false.
Proof. intros q stream k OK R K L. unfold parse_stream. apply (drain_room _ q stream k); auto. Qed.

(* what a compaction is: MQTT_CLIENT_TRY_PACK did not find `sz` free bytes, mqtt_mq_clean dropped the completed messages
   at the head of the queue, and the packet was queued behind the rest or the session ends with SEND_BUFFER_IS_FULL *)
Theorem C16_compaction_thm : forall ct pid sz q r, try_pack ct pid sz q = (r, true) ->
  currsz q < sz /\ ((r = Some (clean q ++ [new_entry ct pid sz]) /\ sz <= currsz (clean q)) \/ (r = None /\ currsz (clean q) < sz)).
Proof.
  intros ct pid sz q r. unfold try_pack. destruct (sz <=? currsz q) eqn:E1; [discriminate|]. apply Z.leb_gt in E1.
  destruct (sz <=? currsz (clean q)) eqn:E2; intros H; inversion H; subst; split; auto; [apply Z.leb_le in E2|apply Z.leb_gt in E2]; auto.
Qed.

Theorem C16_segmentation_independent_room_thm : forall s segs1 segs2 k,
  ready s -> Forall bytes_ok segs1 -> Forall bytes_ok segs2 -> concat segs1 = concat segs2 ->
  room (mq s) k -> 0 <= k -> len (buf s ++ concat segs1) <= 4 * k ->
  let r1 := run_from FIXED s (map Seg segs1) in let r2 := run_from FIXED s (map Seg segs2) in
  rx_of (snd r1) = rx_of (snd r2) /\ qeq (mq (fst r1)) (mq (fst r2)) /\ halted (fst r1) = halted (fst r2) /\
  (halted (fst r1) = false -> buf (fst r1) = buf (fst r2)).
Proof.
  intros s segs1 segs2 k R O1 O2 E RM K L. apply C16_segmentation_independent_thm; auto.
  apply (C16_room_no_compaction_thm _ _ k); auto. apply bytes_ok_app. split; [apply R|].
  clear - O1. induction O1; cbn [concat]; [constructor|apply bytes_ok_app; auto].
Qed.

(* ------------------------------------------------------------------------------------------ *)
(* reconnect: every new session starts from a rewound receive window and an empty queue, whatever the old session left *)
Theorem C16_reconnect_fresh_thm : forall s n,
  let '(s', o) := step FIXED s (Relink n) in
  ready s' /\ buf s' = [] /\ all_sent (mq s') /\
  mq s' = [{| ect := CT_CONNECT; epid := 0; esz := n; esent := true; eacked := false |}] /\
  o = (if halted s then [] else [Reconnect]) ++ [Boot n; Sent CT_CONNECT []].
Proof.
  intros s n. cbn [step]. unfold boot_with, sync. cbn [buf mq length].
  change (drain 1 FIXED ?q []) with (parse_stream q []). rewrite parse_empty. cbn [d_stop d_q d_rest d_out d_moved app].
  unfold send. cbn [map filter unsent eacked esent negb andb set_sent ect epid esz app].
  pose proof (cf_recvbuf_lo consts_ok).
  split; [constructor; cbn [buf halted]; [constructor|change (len (@nil Z)) with 0; lia|reflexivity|reflexivity]|].
  split; [reflexivity|]. split; [reflexivity|]. split; [reflexivity|]. reflexivity.
Qed.
