(* C16 — executable model of the MQTT receive path:
   supla_esp_mqtt_conn_recv_cb / mqtt_pal_recvall / mqtt_sync / __mqtt_recv / mqtt_unpack_fixed_header /
   mqtt_unpack_response + per-type unpackers / mqtt_mq_find / __mqtt_puback,pubrec,pubcomp (MQTT_CLIENT_TRY_PACK,
   mqtt_mq_register, mqtt_mq_clean) / __mqtt_send (state changes only) / publish callback.
   The model follows the code *after* the proposed repairs (docs/fixes/C16_*.diff); the behaviour of the
   unchanged code is kept behind the booleans of `fixes`.  Definitions only. *)
From Coq Require Import List ZArith Bool.
Import ListNotations.
From V Require Import Base.U32 Base.Bytes Base.Iface Gen.MqttConsts.
Local Open Scope Z_scope.

Record fixes := { fx_recv : bool;      (* C16_recv_offset.diff: segment written at recv_buffer.curr, in pieces *)
                  fx_publen : bool;    (* C16_publish_lengths.diff: topic/packet-id fit the remaining length, QoS 3 rejected *)
                  fx_pinglen : bool }. (* C16_pingresp_length.diff *)
Definition FIXED : fixes := {| fx_recv := true; fx_publen := true; fx_pinglen := true |}.

(* ---------- mqtt_unpack_fixed_header ---------- *)
Inductive hres := HInc | HErr (e : Z) | HOk (ct fl rl hlen : Z).

Definition rule_violation (ct fl : Z) : Z :=
  if nthz TYPE_VALID ct =? 0 then E_CONTROL_FORBIDDEN_TYPE
  else if Z.land (Z.lxor fl (nthz REQ_FLAGS ct)) (nthz MASK_FLAGS ct) =? 0 then 0
  else E_CONTROL_INVALID_FLAGS.

Definition hfin (ct fl rl hlen : Z) : hres :=
  let e := rule_violation ct fl in if e =? 0 then HOk ct fl rl hlen else HErr e.

Definition unpack_header (b : list Z) : hres :=
  if len b =? 0 then HInc else
  let ct := nthz b 0 / 16 in let fl := nthz b 0 mod 16 in
  if len b <=? 1 then HInc else
  let x1 := nthz b 1 in
  if x1 <? 128 then hfin ct fl x1 2 else
  if len b <=? 2 then HInc else
  let x2 := nthz b 2 in let a2 := x1 mod 128 + 128 * (x2 mod 128) in
  if x2 <? 128 then hfin ct fl a2 3 else
  if len b <=? 3 then HInc else
  let x3 := nthz b 3 in let a3 := a2 + 16384 * (x3 mod 128) in
  if x3 <? 128 then hfin ct fl a3 4 else
  if len b <=? 4 then HInc else
  let x4 := nthz b 4 in let a4 := a3 + 2097152 * (x4 mod 128) in
  if x4 <? 128 then hfin ct fl a4 5 else HErr E_INVALID_REMAINING_LENGTH.

(* ---------- mqtt_unpack_response ---------- *)
Inductive resp :=
| RConnack (code : Z)
| RPublish (dup qos retain toff tlen poff plen pid : Z)
| RPubxxx (ct pid : Z)
| RSuback (pid code0 : Z)
| RUnsuback (pid : Z)
| RPingresp.
Inductive ures := UInc | UErr (e : Z) | UOk (r : resp) (consumed : Z).

Definition unpack_publish (fx : fixes) (b : list Z) (fl rl h : Z) : ures :=
  let dup := (fl / 8) mod 2 in let qos := (fl / 2) mod 4 in let retain := fl mod 2 in
  if fx_publen fx && (qos =? 3) then UErr E_PUBLISH_FORBIDDEN_QOS else
  if rl <? (if fx_publen fx then 2 else 4) then UErr E_MALFORMED_RESPONSE else
  let tlen := be16 b h in
  let k := if 0 <? qos then 4 else 2 in
  if fx_publen fx && (rl <? tlen + k) then UErr E_MALFORMED_RESPONSE else
  let toff := h + 2 in
  let pid := if 0 <? qos then be16 b (toff + tlen) else 0 in
  let poff := toff + tlen + (k - 2) in
  let plen := u32 (rl - tlen - k) in
  UOk (RPublish dup qos retain toff tlen poff plen pid) (poff + plen).

Definition unpack (fx : fixes) (b : list Z) : ures :=
  match unpack_header b with
  | HInc => UInc
  | HErr e => UErr e
  | HOk ct fl rl h =>
    (* the second disjunct is implied by the first whenever len b <= RECVBUF (always true of the real buffer) *)
    if (len b - h <? rl) || (RECVBUF <? h + rl) then UInc else
    if ct =? CT_CONNACK then
      if negb (rl =? 2) then UErr E_MALFORMED_RESPONSE else
      if negb (Z.land (nthz b h) 254 =? 0) then UErr E_CONNACK_FORBIDDEN_FLAGS else
      if 5 <? nthz b (h + 1) then UErr E_CONNACK_FORBIDDEN_CODE else
      UOk (RConnack (nthz b (h + 1))) (h + 2)
    else if ct =? CT_PUBLISH then unpack_publish fx b fl rl h
    else if (ct =? CT_PUBACK) || (ct =? CT_PUBREC) || (ct =? CT_PUBREL) || (ct =? CT_PUBCOMP) then
      if negb (rl =? 2) then UErr E_MALFORMED_RESPONSE else UOk (RPubxxx ct (be16 b h)) (h + 2)
    else if ct =? CT_SUBACK then
      if rl <? 3 then UErr E_MALFORMED_RESPONSE else UOk (RSuback (be16 b h) (nthz b (h + 2))) (h + rl)
    else if ct =? CT_UNSUBACK then
      if negb (rl =? 2) then UErr E_MALFORMED_RESPONSE else UOk (RUnsuback (be16 b h)) (h + 2)
    else if ct =? CT_PINGRESP then
      if fx_pinglen fx && negb (rl =? 0) then UErr E_MALFORMED_RESPONSE else UOk RPingresp h
    else UErr E_RESPONSE_INVALID_CONTROL_TYPE
  end.

(* ---------- message queue (client.mq): head of the list = oldest message ---------- *)
Record entry := { ect : Z; epid : Z; esz : Z; esent : bool; eacked : bool }.
Definition fire_and_forget (ct : Z) : bool := (ct =? CT_PUBACK) || (ct =? CT_PUBCOMP) || (ct =? CT_DISCONNECT).
(* msg->state == MQTT_QUEUED_COMPLETE / == MQTT_QUEUED_UNSENT *)
Definition complete (e : entry) : bool := eacked e || (esent e && fire_and_forget (ect e)).
Definition unsent (e : entry) : bool := negb (eacked e) && negb (esent e).
Definition set_acked (e : entry) : entry :=
  {| ect := ect e; epid := epid e; esz := esz e; esent := esent e; eacked := true |}.
Definition set_sent (e : entry) : entry :=
  {| ect := ect e; epid := epid e; esz := esz e; esent := true; eacked := eacked e |}.

(* mqtt_mq_find *)
Definition matches (ct : Z) (opid : option Z) (e : entry) : bool :=
  (ect e =? ct) && match opid with None => negb (complete e) | Some p => epid e =? p end.
(* find + `msg->state = MQTT_QUEUED_COMPLETE` *)
Fixpoint ack_first (p : entry -> bool) (q : list entry) : option (list entry) :=
  match q with
  | [] => None
  | e :: r => if p e then Some (set_acked e :: r)
              else match ack_first p r with Some r' => Some (e :: r') | None => None end
  end.

Definition used (q : list entry) : Z := fold_right (fun e a => esz e + a) 0 q.
(* mqtt_mq_currsz *)
Definition currsz (q : list entry) : Z :=
  let lim := SENDBUF - (len q + 1) * QSZ in if lim <=? used q then 0 else lim - used q.
(* mqtt_mq_clean *)
Fixpoint clean (q : list entry) : list entry :=
  match q with [] => [] | e :: r => if complete e then clean r else q end.
(* MQTT_CLIENT_TRY_PACK + mqtt_mq_register; second component: the queue had to be compacted *)
Definition try_pack (ct pid sz : Z) (q : list entry) : option (list entry) * bool :=
  let e := {| ect := ct; epid := pid; esz := sz; esent := false; eacked := false |} in
  if sz <=? currsz q then (Some (q ++ [e]), false)
  else let q' := clean q in
       if sz <=? currsz q' then (Some (q' ++ [e]), true) else (None, true).

(* ---------- outputs ---------- *)
Inductive out :=
| Boot (n : Z)
| Msg (dup qos retain toff tlen poff plen valid : Z) (bytes : list Z)
| Sent (ct : Z) (bytes : list Z)
| Queued (ct pid sz : Z)
| Dropped
| Err (e : Z)
| Reconnect
| Fault.

Definition slice (b : list Z) (off n : Z) : list Z := take (Z.min n (len b)) (drop off b).

(* the switch of __mqtt_recv: new queue, "publish callback is called", error, "queue was compacted" *)
Definition hres4 : Type := (list entry * bool * option Z * bool)%type.
Definition handle (r : resp) (q : list entry) : hres4 :=
  match r with
  | RConnack code =>
    match ack_first (matches CT_CONNECT None) q with
    | None => (q, false, Some E_ACK_OF_UNKNOWN, false)
    | Some q' => if code =? CONNACK_ACCEPTED then (q', false, None, false)
                 else if code =? CONNACK_ID_REJECTED then (q', false, Some E_CONNECT_CLIENT_ID_REFUSED, false)
                 else (q', false, Some E_CONNECTION_REFUSED, false)
    end
  | RPublish dup qos retain toff tlen poff plen pid =>
    if qos =? 1 then
      match try_pack CT_PUBACK pid 4 q with
      | (Some q', t) => (q', true, None, t)
      | (None, t) => (q, false, Some E_SEND_BUFFER_IS_FULL, t)
      end
    else if qos =? 2 then
      if existsb (matches CT_PUBREC (Some pid)) q then (q, false, None, false)
      else match try_pack CT_PUBREC pid 4 q with
           | (Some q', t) => (q', true, None, t)
           | (None, t) => (q, false, Some E_SEND_BUFFER_IS_FULL, t)
           end
    else (q, true, None, false)
  | RPubxxx ct pid =>
    if ct =? CT_PUBACK then
      match ack_first (matches CT_PUBLISH (Some pid)) q with
      | None => (q, false, Some E_ACK_OF_UNKNOWN, false) | Some q' => (q', false, None, false) end
    else if ct =? CT_PUBREC then
      if existsb (matches CT_PUBREL (Some pid)) q then (q, false, None, false)
      else match ack_first (matches CT_PUBLISH (Some pid)) q with
           | None => (q, false, Some E_ACK_OF_UNKNOWN, false)
           | Some q' => match try_pack CT_PUBREL pid 4 q' with
                        | (Some q'', t) => (q'', false, None, t)
                        | (None, t) => (q', false, Some E_SEND_BUFFER_IS_FULL, t)
                        end
           end
    else if ct =? CT_PUBREL then
      match ack_first (matches CT_PUBREC (Some pid)) q with
      | None => (q, false, Some E_ACK_OF_UNKNOWN, false)
      | Some q' => match try_pack CT_PUBCOMP pid 4 q' with
                   | (Some q'', t) => (q'', false, None, t)
                   | (None, t) => (q', false, Some E_SEND_BUFFER_IS_FULL, t)
                   end
      end
    else
      match ack_first (matches CT_PUBREL (Some pid)) q with
      | None => (q, false, Some E_ACK_OF_UNKNOWN, false) | Some q' => (q', false, None, false) end
  | RSuback pid code0 =>
    match ack_first (matches CT_SUBSCRIBE (Some pid)) q with
    | None => (q, false, Some E_ACK_OF_UNKNOWN, false)
    | Some q' => if code0 =? SUBACK_FAILURE then (q', false, Some E_SUBSCRIBE_FAILED, false) else (q', false, None, false)
    end
  | RUnsuback pid =>
    match ack_first (matches CT_UNSUBSCRIBE (Some pid)) q with
    | None => (q, false, Some E_ACK_OF_UNKNOWN, false) | Some q' => (q', false, None, false) end
  | RPingresp =>
    match ack_first (matches CT_PINGREQ None) q with
    | None => (q, false, Some E_ACK_OF_UNKNOWN, false) | Some q' => (q', false, None, false) end
  end.

(* arguments of the publish callback, as slices of the buffer b (= recvbuf[0..curr)) *)
Definition msg_of (b : list Z) (r : resp) : list out :=
  match r with
  | RPublish dup qos retain toff tlen poff plen pid =>
      [Msg dup qos retain toff tlen poff plen (len b) (slice b toff tlen ++ slice b poff plen)]
  | _ => []
  end.

(* ---------- the while loop of __mqtt_recv on the bytes recv_buffer.mem_start .. curr ---------- *)
Inductive stop := Wait | Failed (e : Z) | Crashed.
Record dres := { d_q : list entry; d_rest : list Z; d_moved : list Z; d_out : list out; d_stop : stop; d_tight : bool }.
(* d_moved: bytes left behind the new `curr` by the memmove calls (become stale memory) *)

Fixpoint drain (fuel : nat) (fx : fixes) (q : list entry) (b : list Z) : dres :=
  match fuel with
  | O => {| d_q := q; d_rest := b; d_moved := []; d_out := []; d_stop := Wait; d_tight := false |}
  | S k =>
    match unpack fx b with
    | UInc => {| d_q := q; d_rest := b; d_moved := []; d_out := [];
                 d_stop := if RECVBUF <=? len b then Failed E_RECV_BUFFER_TOO_SMALL else Wait; d_tight := false |}
    | UErr e => {| d_q := q; d_rest := b; d_moved := []; d_out := []; d_stop := Failed e; d_tight := false |}
    | UOk r c =>
      match handle r q with
      | (q', dl, oe, t) =>
        let o := if dl then msg_of b r else [] in
        if len b <? c then   (* only the unrepaired code: memmove with a negative size *)
          {| d_q := q'; d_rest := b; d_moved := []; d_out := o; d_stop := Crashed; d_tight := t |}
        else
        match oe with
        | Some e => {| d_q := q'; d_rest := drop c b; d_moved := drop (len b - c) b; d_out := o; d_stop := Failed e; d_tight := t |}
        | None =>
          let d := drain k fx q' (drop c b) in
          {| d_q := d_q d; d_rest := d_rest d; d_moved := d_moved d ++ drop (len b - c) b;
             d_out := o ++ d_out d; d_stop := d_stop d; d_tight := t || d_tight d |}
        end
      end
    end
  end.

(* ---------- device state ---------- *)
Record st := { buf : list Z;      (* recvbuf[0 .. curr) *)
               stale : list Z;    (* recvbuf[curr .. MQTT_RECVBUF_SIZE) *)
               mq : list entry;
               halted : bool }.

Definition sent_out (e : entry) : out :=
  if (4 <=? ect e) && (ect e <=? 7)
  then Sent (ect e) [ect e * 16 + (if ect e =? CT_PUBREL then 2 else 0); 2; epid e / 256; epid e mod 256]
  else Sent (ect e) [].
(* __mqtt_send with espconn_sent() = 0 and no time passing (no resend, no keep-alive ping) *)
Definition send (q : list entry) : list entry * list out :=
  (map (fun e => if unsent e then set_sent e else e) q, map sent_out (filter unsent q)).

(* mqtt_sync on a session without a pending error *)
Definition sync (fx : fixes) (s : st) : st * list out :=
  let d := drain (S (length (buf s))) fx (mq s) (buf s) in
  let st' := d_moved d ++ stale s in
  match d_stop d with
  | Wait => let '(q', so) := send (d_q d) in
            ({| buf := d_rest d; stale := st'; mq := q'; halted := false |}, d_out d ++ so)
  | Failed e => ({| buf := d_rest d; stale := st'; mq := d_q d; halted := true |}, d_out d ++ [Err e; Reconnect])
  | Crashed => ({| buf := d_rest d; stale := st'; mq := d_q d; halted := true |}, d_out d ++ [Fault])
  end.

Definition put (s : st) (piece : list Z) : st :=
  {| buf := buf s ++ piece; stale := drop (len piece) (stale s); mq := mq s; halted := halted s |}.

(* repaired supla_esp_mqtt_conn_recv_cb: do { copy what fits at curr; mqtt_sync } while (len > 0 && error == OK) *)
Fixpoint feed (fuel : nat) (fx : fixes) (s : st) (chunk : list Z) : st * list out :=
  match fuel with
  | O => (s, [])
  | S k =>
    let free := RECVBUF - len (buf s) in
    let n := if len chunk <? free then len chunk else free in
    let '(s1, o1) := sync fx (put s (take n chunk)) in
    let rest := drop n chunk in
    if (0 <? len rest) && negb (halted s1)
    then let '(s2, o2) := feed k fx s1 rest in (s2, o1 ++ o2)
    else (s1, o1)
  end.

(* unrepaired supla_esp_mqtt_conn_recv_cb: segment copied to recvbuf[0..), curr advanced by its length *)
Definition feed_old (fx : fixes) (s : st) (chunk : list Z) : st * list out :=
  if RECVBUF <? len chunk then (s, [Dropped]) else
  let whole := chunk ++ drop (len chunk) (buf s ++ stale s) in
  let curr := len (buf s) + len chunk in
  if RECVBUF <? curr then ({| buf := buf s; stale := stale s; mq := mq s; halted := true |}, [Fault])
  else sync fx {| buf := take curr whole; stale := drop curr whole; mq := mq s; halted := false |}.

Inductive ev := Start (n : Z) | Seg (chunk : list Z) | Tick | Sub (pid sz : Z) | Ping
              | Pub (pid sz : Z)    (* the device queues a QoS 1 PUBLISH of sz bytes with packet id pid (mqtt_publish) *)
              | Relink (n : Z).     (* the session ends (protocol error before, or the link died now); supla_esp_mqtt_reconnect:
                                       mqtt_reinit rewinds the receive window and empties the queue; new CONNECT of n bytes *)

Definition device_pack (s : st) (ct pid sz : Z) : st * list out :=
  match try_pack ct pid sz (mq s) with
  | (Some q', _) => ({| buf := buf s; stale := stale s; mq := q'; halted := false |}, [Queued ct pid sz])
  | (None, _) => ({| buf := buf s; stale := stale s; mq := mq s; halted := true |}, [Err E_SEND_BUFFER_IS_FULL; Reconnect])
  end.

Definition boot_with (fx : fixes) (mem : list Z) (n : Z) : st * list out :=
  let s0 := {| buf := []; stale := mem;
               mq := [{| ect := CT_CONNECT; epid := 0; esz := n; esent := false; eacked := false |}]; halted := false |} in
  let '(s1, o1) := sync fx s0 in (s1, Boot n :: o1).
Definition boot (fx : fixes) (n : Z) : st * list out := boot_with fx (zeros RECVBUF) n.

Definition step (fx : fixes) (s : st) (e : ev) : st * list out :=
  match e with
  | Relink n => let '(s1, o1) := boot_with fx (buf s ++ stale s) n in (s1, (if halted s then [] else [Reconnect]) ++ o1)
  | _ =>
  if halted s then (s, []) else
  match e with
  | Start _ => (s, [])
  | Relink _ => (s, [])
  | Seg chunk => if fx_recv fx then feed (S (S (length chunk))) fx s chunk else feed_old fx s chunk
  | Tick => let '(s1, o1) := sync fx s in
            if halted s1 then (s1, o1)
            else ({| buf := buf s1; stale := stale s1; mq := clean (mq s1); halted := false |}, o1)
  | Sub pid sz => device_pack s CT_SUBSCRIBE pid sz
  | Ping => device_pack s CT_PINGREQ 0 2
  | Pub pid sz => device_pack s CT_PUBLISH pid sz
  end
  end.

Fixpoint run_from (fx : fixes) (s : st) (evs : list ev) : st * list out :=
  match evs with
  | [] => (s, [])
  | e :: r => let '(s1, o1) := step fx s e in
              let '(s2, o2) := run_from fx s1 r in (s2, o1 ++ o2)
  end.

(* a case = Start n followed by events; anything before Start is ignored *)
Definition run (fx : fixes) (evs : list ev) : list out :=
  match evs with
  | Start n :: r => let '(s1, o1) := boot fx n in o1 ++ snd (run_from fx s1 r)
  | _ => []
  end.

(* ---------- specification side ---------- *)
(* the stream parser: the same packet loop on the whole, unsegmented byte stream *)
Definition parse_stream (q : list entry) (stream : list Z) : dres := drain (S (length stream)) FIXED q stream.

(* MQTT 3.1.1 encodings used by the theorems *)
Definition enc_rl (n : Z) : list Z :=
  if n <? 128 then [n]
  else if n <? 16384 then [128 + n mod 128; n / 128]
  else if n <? 2097152 then [128 + n mod 128; 128 + (n / 128) mod 128; n / 16384]
  else [128 + n mod 128; 128 + (n / 128) mod 128; 128 + (n / 16384) mod 128; n / 2097152].
Definition enc16 (n : Z) : list Z := [n / 256; n mod 256].
Definition enc_publish (dup qos retain pid : Z) (topic payload : list Z) : list Z :=
  let body := enc16 (len topic) ++ topic ++ (if 0 <? qos then enc16 pid else []) ++ payload in
  [CT_PUBLISH * 16 + dup * 8 + qos * 2 + retain] ++ enc_rl (len body) ++ body.

(* what the handler and the wire must show; `valid` is not compared (it depends on the coalescing) *)
Inductive rx := RxMsg (dup qos retain toff tlen poff plen : Z) (bytes : list Z) | RxErr (e : Z) | RxReconnect | RxFault | RxDropped.
Fixpoint rx_of (o : list out) : list rx :=
  match o with
  | [] => []
  | Msg d q r a b c e _ bytes :: t => RxMsg d q r a b c e bytes :: rx_of t
  | Err e :: t => RxErr e :: rx_of t
  | Reconnect :: t => RxReconnect :: rx_of t
  | Fault :: t => RxFault :: rx_of t
  | Dropped :: t => RxDropped :: rx_of t
  | _ :: t => rx_of t
  end.
Definition is_ack (o : out) : bool := match o with Sent ct _ => (4 <=? ct) && (ct <=? 7) | _ => false end.
Definition rx_of_stop (s : stop) : list rx :=
  match s with Wait => [] | Failed e => [RxErr e; RxReconnect] | Crashed => [RxFault] end.

(* ---------- wire interface ---------- *)
Definition ev_of_wire (w : wire) : ev :=
  match w with (k, a, b) =>
    if k =? 0 then Start (nth 0 a 0)
    else if k =? 1 then Seg b
    else if k =? 2 then Tick
    else if k =? 3 then Sub (nth 0 a 0) (nth 1 a 0)
    else if k =? 5 then Pub (nth 1 a 0) (nth 2 a 0)
    else if k =? 6 then Relink (nth 0 a 0)
    else Ping
  end.
Definition fx_of_wire (ws : list wire) : fixes :=
  match ws with
  | (_, a, _) :: _ => let m := nth 1 a 0 in
      {| fx_recv := negb (Z.odd m); fx_publen := negb (Z.odd (m / 2)); fx_pinglen := negb (Z.odd (m / 4)) |}
  | [] => FIXED
  end.
Definition wire_of_out (o : out) : wire :=
  match o with
  | Boot n => mk 0 [n] []
  | Msg d q r a b c e v bytes => mk 1 [d; q; r; a; b; c; e; v] bytes
  | Sent ct bytes => mk 2 [ct] bytes
  | Queued ct pid sz => mk 3 [ct; pid; sz] []
  | Dropped => mk 4 [] []
  | Err e => mk 5 [e] []
  | Reconnect => mk 6 [] []
  | Fault => mk 7 [] []
  end.
Definition main_wire (ws : list wire) : list wire :=
  map wire_of_out (run (fx_of_wire ws) (map ev_of_wire ws)).
