From Coq Require Import List ZArith Bool.
Import ListNotations.
From V Require Import Base.Bytes Gen.RelayConsts C07.Model C07.Proofs C06.Model C06.Proofs.
Local Open Scope Z_scope.
