(* C06 — Relay output follows the last command and the server is told the truth.
   Property theorems only: each is closed by `exact` of a lemma proved in C06/Proofs.v (which builds on C07). *)
From Coq Require Import List ZArith Bool.
Import ListNotations.
From V Require Import Base.Bytes Gen.RelayConsts C07.Model C07.Proofs C06.Model C06.Proofs C06.Report.
Local Open Scope Z_scope.

(* Output follows the command, and the report is the read-back (_supla_esp_channel_set_value, used by the set-value
   handler and by the countdown finish callback): after driving relay r with v the logical level (pin, inverted for
   active-low wiring) is (v = 1); the success flag is 1; the value handed to srpc is that read-back level, queued when the
   out-queue has room. *)
Theorem C06_output_follows_and_report_truthful : forall c a r v ch s,
  wf_cfg c -> In r (c_relays c) -> find_gpio (c_relays c) 0 (r_gpio r) = Some (a, r) ->
  let '(s', ok) := chan_set_value c (r_gpio r) v ch s in
  level r s' = (v =? 1) /\ ok = 1 /\
  (reg s = true -> len (queue s) < QUEUE_SIZE -> queue s' = queue s ++ [CVal ch (if level r s' then 1 else 0)]) /\
  (reg s = false -> queue s' = queue s).
Proof. exact chan_set_value_thm. Qed.
Print Assumptions C06_output_follows_and_report_truthful.

(* One result per request: the handler of a set-value request for an existing relay channel (whatever duration, value,
   running timers, staircase configuration, variant of countdown()) leaves the relay at the requested level and issues
   exactly one result, with the request's channel and sender id and Success = 1; all its other calls are values and
   timer states.  Issued = handed to srpc: queued if the 2-entry out-queue has room, otherwise refused (ODrop). *)
Theorem C06_one_result_per_request : forall e c ch v dur sender a r s,
  wf_cfg c -> In r (c_relays c) -> find_chan (c_relays c) 0 ch = Some (a, r) -> find_gpio (c_relays c) 0 (r_gpio r) = Some (a, r) ->
  conn s = true ->
  let s' := channel_set_value e c ch v dur sender s in
  level r s' = (v =? 1) /\
  exists qa add, queue s' = queue s ++ qa /\ outs s' = add ++ outs s /\
    filter isres (qa ++ new_drops add) = [CRes ch sender 1].
Proof. exact set_value_thm. Qed.
Print Assumptions C06_one_result_per_request.

(* Transport: an iterate moves calls queue -> out buffer (-> devconn's send buffer while espconn_sent answers INPROGRESS /
   MAXNUM; such frames stay in `obuf` with 0 bytes left) -> wire without invention or reordering, and without loss unless
   the send buffer itself loses bytes (overflow of its 500 bytes or a hard error of espconn_sent: ghost output OLost); it
   does not touch the outputs; the same holds for the retry of the send buffer at the start of supla_esp_devconn_iterate.
   When the device is idle (queue and buffer empty) the wire has carried exactly the accepted calls. *)
Theorem C06_fifo : forall s,
  (forall add, outs (iterate6 s) = add ++ outs s -> lost add = []) ->
  accepted (iterate6 s) = accepted s /\ gout (iterate6 s) = gout s.
Proof. exact fifo_thm. Qed.
Print Assumptions C06_fifo.
Theorem C06_transport_pieces : forall s, tp s (iterate6 s) /\ tp s (dev_iterate s).
Proof. intros s. split; [apply iterate6_tp|apply dev_iterate_tp]. Qed.
Print Assumptions C06_transport_pieces.
Theorem C06_idle_all_delivered : forall s, queue s = [] -> obuf s = [] -> wired (outs s) = accepted s.
Proof. exact idle_thm. Qed.
Print Assumptions C06_idle_all_delivered.

(* The full reporting clauses ("exactly one result ON THE WIRE", "the last reported value equals the real state when
   idle") are FALSE of the code: the out-queue holds SRPC_QUEUE_SIZE = 2 calls and the return value of srpc_ds_async_* is
   ignored.  Witnesses (replayed on the real code by corpus/C06/burst3.txt, burst4.txt): *)
Theorem C06_one_result_refuted :
  drops (run6 false cd_board [CReg; CSetV 0 1 3000 77; CIter; CIter; CIter]) = [CRes 0 77 1] /\
  wired (rev (run6 false cd_board [CReg; CSetV 0 1 3000 77; CIter; CIter; CIter])) = [CExt 0 3000 0 77; CVal 0 1].
Proof. exact burst3_refuted_thm. Qed.
Print Assumptions C06_one_result_refuted.
Theorem C06_last_report_refuted :
  drops (run6 false cd_board [CReg; CSetV 0 1 3000 77; CIter; CIter; CIter; CSetV 0 0 5000 78; CIter; CIter; CIter]) =
    [CRes 0 77 1; CVal 0 0; CRes 0 78 1].
Proof. exact burst4_refuted_thm. Qed.
Print Assumptions C06_last_report_refuted.

(* _except_known: under H_queue_room (no call of the handler was refused) the one result is queued behind what was issued
   before it; C06_fifo and C06_idle_all_delivered then carry it to the wire unchanged. *)
Theorem C06_one_result_except_known : forall e c ch v dur sender a r s,
  wf_cfg c -> In r (c_relays c) -> find_chan (c_relays c) 0 ch = Some (a, r) -> find_gpio (c_relays c) 0 (r_gpio r) = Some (a, r) ->
  conn s = true ->
  let s' := channel_set_value e c ch v dur sender s in
  (forall add, outs s' = add ++ outs s -> new_drops add = []) ->
  exists qa, queue s' = queue s ++ qa /\ filter isres qa = [CRes ch sender 1].
Proof. exact set_value_result_queued_thm. Qed.
Print Assumptions C06_one_result_except_known.

(* the hypotheses are satisfiable, and without the countdown capability the same requests are answered on the wire *)
Example C06_plain_channel_answered :
  drops (run6 false cd_board [CReg; CSetV 1 1 3000 77; CIter; CIter; CSetV 1 0 0 78; CIter; CIter]) = [] /\
  wired (rev (run6 false cd_board [CReg; CSetV 1 1 3000 77; CIter; CIter; CSetV 1 0 0 78; CIter; CIter])) =
    [CVal 1 1; CRes 1 77 1; CVal 1 0; CRes 1 78 1].
Proof. exact plain_answered_thm. Qed.
Print Assumptions C06_plain_channel_answered.

(* The last reported value equals the real state whenever the device is idle — as an invariant of whole histories:
   on every board with pairwise different gpios and channels (wf6), for every list of events after registration
   (iterates, set-value and group set-value requests with any value and duration, button / motion / sensor callbacks,
   timer expiries, staircase changes, channel-config messages, a TCP layer that refuses writes; both variants of
   countdown()), under H_queue_room (no call was refused anywhere in the trace, i.e. outside the two known-finding
   classes) and H_link_room (nothing lost in devconn's send buffer): whenever the out-queue and the out buffer are empty, the last
   VALUE_CHANGED on the wire for each relay channel is the logical level of its pin (pin xor active-low); a relay whose
   channel was never reported since registration still has the level it had at registration. *)
Theorem C06_last_report_equals_state_except_known : forall e c, wf6 c -> forall evs,
  (forall x, In x evs -> x <> CReg) ->
  let s := run_reg e c evs in
  new_drops (outs s) = [] -> lost (outs s) = [] -> queue s = [] -> obuf s = [] ->
  forall r, In r (c_relays (c6 c)) ->
    match lastval (wired (outs s)) (r_chan r) with
    | Some v => v = b2z (level r s)
    | None => level r s = level r (sreg6 e c)
    end.
Proof. exact last_report_idle_thm. Qed.
Print Assumptions C06_last_report_equals_state_except_known.

(* the invariant behind it holds at every point of such a history, idle or not, for the calls accepted so far
   (on the wire, in the out buffer, in the queue) *)
Theorem C06_reports_follow_outputs : forall e c, wf6 c -> forall evs,
  (forall x, In x evs -> x <> CReg) ->
  let s := run_reg e c evs in
  new_drops (outs s) = [] -> lost (outs s) = [] ->
  SlotRel (c6 c) s /\ reg s = true /\ rep c (sreg6 e c) s.
Proof. exact last_report_thm. Qed.
Print Assumptions C06_reports_follow_outputs.

Example C06_history_hypotheses_satisfiable :
  wf6 cd_board /\ (forall x, In x plain_evs -> x <> CReg) /\ new_drops (outs (run_reg false cd_board plain_evs)) = [] /\
  lost (outs (run_reg false cd_board plain_evs)) = [] /\
  queue (run_reg false cd_board plain_evs) = [] /\ obuf (run_reg false cd_board plain_evs) = [] /\
  lastval (wired (outs (run_reg false cd_board plain_evs))) 1 = Some 0.
Proof. exact (conj wf6_cd_board plain_history_ok). Qed.
Print Assumptions C06_history_hypotheses_satisfiable.
