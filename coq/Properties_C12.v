(* C12 — Config mode, recalibration, factory reset need physical access or authorisation.
   Property theorems only: each is closed by `exact` of a lemma proved in C12/Proofs.v.
   Vocabulary (C12/Model.v, C12/Proofs.v):
     run evs               outputs of the device automaton from power-off; evs starts with Boot
     EnterCfg t            supla_esp_cfgmode_start() got past its guard at time t (configuration mode entered)
     hist i pre            history of input i in the event prefix pre: number of state changes (h_n), time and
                           direction of the last change (h_t, h_st), notified state (h_phys); clock pre = elapsed us
     held pre i x          input x (index i) has on-hold enabled (CFG_BTN, monostable, not toggle-only), its last state
                           change was "pressed" and PRESS_TIME_MS have elapsed since (true time)
     cause_enter s pre e   e is (a) a timer tick of a held configuration button while not in configuration mode,
                           (b) a state change of an input with on-toggle enabled that is at least the PRESS_COUNT-th
                               change of that input, or
                           (c) a CALCFG request that passed the size gate with Command = ENTER_CFG_MODE and
                               SuperUserAuthorized = 1
     cause_factory s pre e e is a timer tick of a held button with CFG_BTN and FACTORY_RESET while cfgmode s = true
     code_shape            the generated call-site lists of the choke-point functions / the dispatcher's callees
                           equal the lists the model implements (closed by reflexivity in Proofs.code_shape_holds) *)
From Coq Require Import List ZArith Bool.
Import ListNotations.
From V Require Import Base.U32 Base.Bytes Base.Iface Gen.C12Consts C12.Model C12.Proofs C12.Chain C12.Boot.
Local Open Scope Z_scope.

(* ev_ok: Time dt has dt >= 0; a server message is not a gate-passing SET_CHANNEL_CONFIG / GET_CHANNEL_CONFIG_RESULT for a
   relay or shutter function with a non-empty config (chcfg_unmodelled: those handlers belong to C03 and are not followed by
   this model; ACTIONTRIGGER configurations — supla_esp_input_set_active_triggers — ARE modelled, with any ActiveActions,
   changed or unchanged, at any moment of a gesture). *)
(* Configuration mode is entered (from any boot configuration, under any interleaving of server messages over all
   call ids/payloads, button notifications, timer ticks, clock advances and shutter-engine activity) only by
   (d) the boot itself with an incomplete configuration, or an event with one of the causes (a), (b), (c). *)
Theorem C12_only_these_enter_cfgmode : forall b32 bl fc ins rs evs t,
  Forall ev_ok evs ->
  In (EnterCfg t) (run (Boot b32 bl fc ins rs :: evs)) ->
  incomplete (if fc =? 0 then 15 else bl) = true \/
  exists pre e post, evs = pre ++ e :: post /\
    cause_enter (fst (run_from init (Boot b32 bl fc ins rs :: pre))) pre e.
Proof. exact (only_these_enter_cfgmode_thm code_shape_holds). Qed.
Print Assumptions C12_only_these_enter_cfgmode.
(* Clause (b) above gives the NUMBER of state changes; the timing ("in quick succession") is
   C12_toggle_entry_is_quick_chain / C12_toggle_entry_quick_in_true_time (legacy handler) and
   C12_toggle_entry_advanced (ActionTrigger handler) below; it fails in true time exactly for pauses of a full period of the
   32-bit counter: C12_toggle_chain_u32_wrap_refuted, C12_toggle_wrap_witness_changes (known finding toggle-gap-u32-wrap). *)

(* Clause (b) in time — legacy input handler (inputs without active ActionTriggers).
   Vocabulary (C12/Chain.v): changes i evs = state changes (time, new state) of input i in evs, most recent first;
   refok b32 l r: r is the counter-zero reference (- b32) or the time of a change of that input to "active";
   linked b32 l chain: every element t of the chain (most recent first) has a reference r, not later than the previous
   element, with u32 (t - r) < CHAIN_WINDOW_US (the literal of the handler's test, extracted by the translator) — the link
   as the code measures it; subseq chain times: the chain consists of distinct change events of that input;
   leg_in i ty fl s: input i has type ty, flags fl and is served by the legacy handler (advanced s x = false).
   If a notification of input i enters configuration mode, the input has on-toggle enabled and the notification closes a
   chain of at least PRESS_COUNT of its state changes, each link quick in the device's 32-bit microsecond arithmetic. *)
Theorem C12_toggle_entry_is_quick_chain : forall b32 bl fc ins rs pre stt post t i ty fl,
  Forall ev_ok (pre ++ Notify i stt :: post) ->
  (forall p q, pre ++ Notify i stt :: post = p ++ q -> leg_in i ty fl (fst (run_from init (Boot b32 bl fc ins rs :: p)))) ->
  let s1 := fst (run_from init (Boot b32 bl fc ins rs :: pre)) in
  In (EnterCfg t) (snd (step s1 (Notify i stt))) ->
  exists x, getn (inputs s1) i = Some x /\ toggle_enabled x = true /\
    exists chain, PRESS_COUNT <= len chain /\ hd 0 chain = now s1 /\
                  subseq chain (map fst (changes i (pre ++ [Notify i stt]))) /\
                  linked (boot32 s1) (changes i (pre ++ [Notify i stt])) chain.
Proof. exact (toggle_entry_chain_thm code_shape_holds). Qed.
Print Assumptions C12_toggle_entry_is_quick_chain.

(* "quick succession" proper: if no change of that input comes a full period of the 32-bit counter (2^32 us = 71.58 min) or
   more after a reference (exactly the pauses of the known finding toggle-gap-u32-wrap), consecutive elements of the chain are
   less than CHAIN_WINDOW_US apart in true time and the whole chain took at most (n - 1) * (CHAIN_WINDOW_US - 1) us. *)
Theorem C12_toggle_entry_quick_in_true_time : forall b32 bl fc ins rs pre stt post t i ty fl,
  Forall ev_ok (pre ++ Notify i stt :: post) ->
  (forall p q, pre ++ Notify i stt :: post = p ++ q -> leg_in i ty fl (fst (run_from init (Boot b32 bl fc ins rs :: p)))) ->
  let s1 := fst (run_from init (Boot b32 bl fc ins rs :: pre)) in
  let l := changes i (pre ++ [Notify i stt]) in
  In (EnterCfg t) (snd (step s1 (Notify i stt))) ->
  (forall tc st r, In (tc, st) l -> refok (boot32 s1) l r -> r <= tc -> tc - r < 4294967296) ->
  exists chain, PRESS_COUNT <= len chain /\ hd 0 chain = now s1 /\ subseq chain (map fst l) /\ quick chain /\
                now s1 - last chain 0 <= (len chain - 1) * (CHAIN_WINDOW_US - 1).
Proof. exact (toggle_entry_true_time_thm code_shape_holds). Qed.
Print Assumptions C12_toggle_entry_quick_in_true_time.

(* non-vacuity: ten toggles 300 ms apart on a bistable configuration button satisfy every hypothesis of both theorems *)
Example C12_toggle_chain_nonvacuous :
  let b := w_boot TYPE_BISTABLE FLAG_CFG_BTN in
  let s1 := fst (run_from init (b :: w_quick_pre)) in
  let l := changes 0 (w_quick_pre ++ [Notify 0 0]) in
  Forall ev_ok (w_quick_pre ++ Notify 0 0 :: []) /\
  (forall p q, w_quick_pre ++ Notify 0 0 :: [] = p ++ q -> leg_in 0 TYPE_BISTABLE FLAG_CFG_BTN (fst (run_from init (b :: p)))) /\
  In (EnterCfg (now s1)) (snd (step s1 (Notify 0 0))) /\
  (forall tc st r, In (tc, st) l -> refok (boot32 s1) l r -> r <= tc -> tc - r < 4294967296) /\
  map fst l = map (fun k => 500000 + 300000 * Z.of_nat k) (rev (seq 0 10)).
Proof. exact chain_nonvacuous_thm. Qed.
Print Assumptions C12_toggle_chain_nonvacuous.

(* the wrap witness (C12_toggle_chain_u32_wrap_refuted below) has its ten changes exactly 2^32 us apart: links quick modulo
   2^32, no two changes within the window in true time *)
Theorem C12_toggle_wrap_witness_changes :
  map fst (changes 0 (firstn 20 w_wrap_toggles)) = map (fun k => 500000 + 4294967296 * Z.of_nat k) (rev (seq 0 10)) /\
  4294967296 > CHAIN_WINDOW_US.
Proof. exact wrap_witness_changes_thm. Qed.
Print Assumptions C12_toggle_wrap_witness_changes.

(* Clause (b), ActionTrigger ("advanced") input handler.  The source has NO time test at the notification there
   (supla_esp_input_advanced_state_change_handling only counts); old clicks are forgotten by the input's timer callback
   (supla_esp_input_advanced_timer_cb): once MULTICLICK_TIME_MS have passed since the last change (32-bit difference) and the
   input is released — or is a toggle switch / motion sensor — the counter is cleared.  arun_n i ty evs is that rule on the
   history: the number of counted state changes of input i (changes to "active", or all changes of a toggle type) since the
   last such time-out Tick.  adv_in i ty s: input i has type ty and is served by the ActionTrigger handler.
   A toggle entry implies on-toggle enabled and arun_n >= PRESS_COUNT: that many counted changes with no time-out tick between
   them.  (That the armed 20 ms timer does fire is the scheduler's business — C11; with it every release->next-change gap, and
   every gap of a toggle type, is below MULTICLICK_TIME_MS + one timer period; a push button held down does not time out.) *)
Theorem C12_toggle_entry_advanced : forall b32 bl fc ins rs pre stt t i ty,
  Forall ev_ok pre ->
  (forall p q, pre = p ++ q -> adv_in i ty (fst (run_from init (Boot b32 bl fc ins rs :: p)))) ->
  let s1 := fst (run_from init (Boot b32 bl fc ins rs :: pre)) in
  In (EnterCfg t) (snd (step s1 (Notify i stt))) ->
  exists x, getn (inputs s1) i = Some x /\ toggle_enabled x = true /\ PRESS_COUNT <= arun_n i ty (pre ++ [Notify i stt]).
Proof. exact (toggle_entry_advanced_thm code_shape_holds). Qed.
Print Assumptions C12_toggle_entry_advanced.

Theorem C12_advanced_run_times_out : forall i ty pre,
  let '(t, ph, tl, n) := arun i ty pre in
  ((ph =? STATE_INACTIVE) || tog ty) = true -> MULTICLICK_TIME_MS * 1000 <= u32 (t - tl) ->
  arun_n i ty (pre ++ [Tick i]) = 0.
Proof. exact arun_timeout_thm. Qed.
Print Assumptions C12_advanced_run_times_out.

Example C12_toggle_advanced_nonvacuous :
  let s1 := fst (run_from init (w_boot_at :: w_adv_pre)) in
  Forall ev_ok w_adv_pre /\
  (forall p q, w_adv_pre = p ++ q -> adv_in 0 TYPE_BISTABLE (fst (run_from init (w_boot_at :: p)))) /\
  In (EnterCfg (now s1)) (snd (step s1 (Notify 0 0))) /\
  arun_n 0 TYPE_BISTABLE (w_adv_pre ++ [Notify 0 0]) = 10 /\
  run (w_boot_at :: w_adv_pre ++ [Time 220000; Tick 0; Notify 0 0]) = [] /\
  arun_n 0 TYPE_BISTABLE (w_adv_pre ++ [Time 220000; Tick 0; Notify 0 0]) = 1.
Proof. exact advanced_nonvacuous_thm. Qed.
Print Assumptions C12_toggle_advanced_nonvacuous.

(* nothing happens before the first boot *)
Theorem C12_preboot_ignored : forall pre evs,
  (forall e, In e pre -> forall a b c d f, e <> Boot a b c d f) -> run (pre ++ evs) = run evs.
Proof. exact preboot_ignored. Qed.
Print Assumptions C12_preboot_ignored.

(* An enter-configuration request whose flag is not 1 is answered UNAUTHORIZED and leaves the whole state unchanged
   (registered s <> 0: the registration step of devconn_iterate is not pending; the answer is sent iff the device
   is registered, send_result). *)
Theorem C12_unauthorised_is_inert_enter : forall s p,
  live s -> srpc_up s = true -> registered s <> 0 -> calcfg_gate p = true -> unauth_class p = true ->
  s32 (le32 p REQ_OFF_COMMAND) = CMD_ENTER_CFG_MODE -> nthz p REQ_OFF_AUTH <> 1 ->
  step s (Srv CALL_CALCFG_REQUEST p) =
    (s, send_result s (s32 (le32 p REQ_OFF_SENDER)) (s32 (le32 p REQ_OFF_CHANNEL)) CMD_ENTER_CFG_MODE RES_UNAUTHORIZED ++ [Inert true]).
Proof. exact (unauthorised_enter_inert_thm consts_ok). Qed.
Print Assumptions C12_unauthorised_is_inert_enter.

(* A recalibrate request with the flag clear leaves the whole state unchanged; the answer is UNAUTHORIZED when the
   request is one the device would otherwise execute, NOT_SUPPORTED when it addresses nothing recalibratable. *)
Theorem C12_unauthorised_is_inert_recalibrate : forall s p,
  live s -> srpc_up s = true -> registered s <> 0 -> calcfg_gate p = true -> unauth_class p = true ->
  s32 (le32 p REQ_OFF_COMMAND) = CMD_RECALIBRATE -> nthz p REQ_OFF_AUTH = 0 ->
  exists res,
  step s (Srv CALL_CALCFG_REQUEST p) =
    (s, send_result s (s32 (le32 p REQ_OFF_SENDER)) (s32 (le32 p REQ_OFF_CHANNEL)) CMD_RECALIBRATE res ++ [Inert true]) /\
  (res = RES_UNAUTHORIZED \/ res = RES_NOT_SUPPORTED) /\
  (let dtype := s32 (le32 p REQ_OFF_DATATYPE) in
   ((dtype =? DATATYPE_RS_SETTINGS) && (le32 p REQ_OFF_DATASIZE =? RSSET_SIZE) || (dtype =? 0)) = true ->
   existsb (rmatch (s32 (le32 p REQ_OFF_CHANNEL))) (rss s) = true -> res = RES_UNAUTHORIZED).
Proof. exact (unauthorised_recalibrate_inert_thm consts_ok). Qed.
Print Assumptions C12_unauthorised_is_inert_recalibrate.

(* Every server message (any call id, any payload, from any state) that changes calibration data (full opening /
   closing times, auto-calibration times and step, position, tilt of any shutter) is an authorised recalibrate request
   for a channel that supports it — except the known findings rs-setvalue-times / rs-setvalue-aborts-autocal:
   known_class_precise = a CHANNEL_SET_VALUE / CHANNELGROUP_SET_VALUE of the right size, addressed to a shutter
   channel, for which sv_shutter (times from DurationMS; relay command while auto-calibrating) changes the data. *)
Theorem C12_no_other_message_touches_calibration_except_known : forall s call p,
  live s -> chcfg_unmodelled call p = false -> ~ known_class_precise s call p ->
  calib_all (fst (step s (Srv call p))) <> calib_all s ->
  call = CALL_CALCFG_REQUEST /\ calcfg_gate p = true /\ s32 (le32 p REQ_OFF_COMMAND) = CMD_RECALIBRATE /\ nthz p REQ_OFF_AUTH <> 0 /\
  existsb (rmatch (s32 (le32 p REQ_OFF_CHANNEL))) (rss (pre_iter s)) = true.
Proof. exact (no_other_message_touches_calibration_except_known_precise_thm code_shape_holds). Qed.
Print Assumptions C12_no_other_message_touches_calibration_except_known.

(* what the known class amounts to on a board without auto-calibration: a set-value whose DurationMS carries the
   stored times, and that is a position command or arrives while no auto-calibration runs, is NOT in the class *)
Theorem C12_known_class_is_times_or_autocal_abort : forall r dur v,
  band (r_flags r) CHFLAG_AUTOCAL = false -> sv_close_time dur = r_t2 r -> sv_open_time dur = r_t1 r ->
  (r_step r = 0 \/ r_abr r = true \/ sv_is_position v = true) ->
  calib (sv_shutter r dur v) = calib r.
Proof. exact sv_shutter_same. Qed.
Print Assumptions C12_known_class_is_times_or_autocal_abort.

(* the clause without the exception is false: a registered device, stored times 10.0 s / 12.0 s, plain
   CHANNEL_SET_VALUE for the shutter channel with DurationMS = 130 | 100 << 16 *)
Theorem C12_no_other_message_touches_calibration_refuted :
  run (w_pro TYPE_MONOSTABLE FLAG_CFG_BTN ++ [w_setvalue]) = [Cal 0 10000 13000 0 0 0 0 0; CfgFlash 1 1 0] /\
  CALL_SET_VALUE <> CALL_CALCFG_REQUEST.
Proof. exact no_other_message_touches_calibration_refuted_thm. Qed.
Print Assumptions C12_no_other_message_touches_calibration_refuted.

(* factory_defaults runs only at a first boot (no valid stored configuration) or on a tick of a held
   FACTORY_RESET-capable configuration button while configuration mode is already on *)
Theorem C12_factory_reset_only_in_cfgmode : forall b32 bl fc ins rs evs,
  Forall ev_ok evs ->
  In Factory (run (Boot b32 bl fc ins rs :: evs)) ->
  fc = 0 \/
  exists pre e post, evs = pre ++ e :: post /\
    cause_factory (fst (run_from init (Boot b32 bl fc ins rs :: pre))) pre e.
Proof. exact (factory_reset_only_in_cfgmode_thm code_shape_holds). Qed.
Print Assumptions C12_factory_reset_only_in_cfgmode.

(* known finding toggle-gap-u32-wrap: ten toggles 2^32 us apart are chained; 40 minutes apart they are not *)
Theorem C12_toggle_chain_u32_wrap_refuted :
  filter (fun o => match o with EnterCfg _ => true | _ => false end) (run (w_boot TYPE_BISTABLE FLAG_CFG_BTN :: w_wrap_toggles))
  = [EnterCfg (500000 + 9 * 4294967296)].
Proof. exact toggle_chain_u32_wrap_refuted_thm. Qed.
Print Assumptions C12_toggle_chain_u32_wrap_refuted.
Theorem C12_toggles_40min_apart_do_not_enter : run (w_boot TYPE_BISTABLE FLAG_CFG_BTN :: w_40min_toggles) = [].
Proof. exact toggles_40min_apart_do_not_enter_thm. Qed.
Print Assumptions C12_toggles_40min_apart_do_not_enter.

(* non-vacuity: each legitimate cause occurs, 249 ticks of 20 ms are not enough, unauthorised requests are answered,
   an authorised recalibrate resets the data, the factory-reset path exists *)
Example C12_nonvacuous :
  run (w_boot TYPE_MONOSTABLE FLAG_CFG_BTN :: [Time 500000; Notify 0 1] ++ w_ticks 250) = [EnterCfg 5500000] /\
  run (w_boot TYPE_MONOSTABLE FLAG_CFG_BTN :: [Time 500000; Notify 0 1] ++ w_ticks 249) = [] /\
  run (w_boot TYPE_BISTABLE FLAG_CFG_BTN :: [Time 500000] ++ concat (map (fun k => [Notify 0 (Z.of_nat (S k) mod 2); Time 300000]) (seq 0 10)))
    = [EnterCfg (500000 + 9 * 300000)] /\
  run (w_pro TYPE_MONOSTABLE FLAG_CFG_BTN ++ [w_calcfg CMD_ENTER_CFG_MODE 1]) = [EnterCfg 0; CalRes 7 0 CMD_ENTER_CFG_MODE RES_DONE] /\
  run (w_pro TYPE_MONOSTABLE FLAG_CFG_BTN ++ [w_calcfg CMD_ENTER_CFG_MODE 0]) = [CalRes 7 0 CMD_ENTER_CFG_MODE RES_UNAUTHORIZED; Inert true] /\
  run (w_pro TYPE_MONOSTABLE FLAG_CFG_BTN ++ [w_calcfg CMD_RECALIBRATE 0]) = [CalRes 7 0 CMD_RECALIBRATE RES_UNAUTHORIZED; Inert true] /\
  run (w_pro TYPE_MONOSTABLE FLAG_CFG_BTN ++ [RsEnv 0 10000 12000 0 0 5100 0 0 0; w_calcfg CMD_RECALIBRATE 1]) =
      [CalRes 7 0 CMD_RECALIBRATE RES_DONE; Cal 0 10000 12000 0 0 0 0 0] /\
  run [Boot 1 2 1 [w_in TYPE_MONOSTABLE FLAG_CFG_BTN] []] = [EnterCfg 0] /\
  run (w_boot TYPE_MONOSTABLE (FLAG_CFG_BTN + FLAG_FACTORY_RESET) :: [Time 500000; Notify 0 1] ++ w_ticks 250 ++ [Notify 0 0; Time 100000; Notify 0 1] ++ w_ticks 250)
    = [EnterCfg 5500000; Factory; CfgFlash 1 1 15; Restart (5500000 + 100000 + 5000000 + 500000)].
Proof. exact nonvacuous_thm. Qed.
Print Assumptions C12_nonvacuous.

(* ---- boot decision of the MQTT-capable build (user_init, #ifdef MQTT_SUPPORT_ENABLED); C12/Boot.v ----
   bootcfg = the stored configuration as the decision sees it (flag bits, "string is set"); complete c = Wi-Fi name, Wi-Fi password and
   server/broker address set and (SUPLA protocol: e-mail set | MQTT: NO_AUTH or user name and password set).
   MBOOT ints: en noauth locked ssid wpwd server ident pass (ident = the one field Email/Username).
   mboot_wire = outputs of the model for the event MBOOT (compared with the real user_main.c built with the MQTT flags):
   [mk 0 [0] []] = configuration mode started, [mk 9 [k] []] = normal start of the SUPLA (1) / MQTT (2) client. *)
Theorem C12_boot_guards_are_the_source_guards :
  tt (fun a => mboot_incomplete (cfg_of_assignment a)) 256 = BOOT_TT_MQTT /\
  tt (fun a => mboot_locked (lock_of_assignment a)) 4 = BOOT_TT_LOCKED /\
  tt (fun a => pboot_enters (negb (bit a 0)) (negb (bit a 1)) (negb (bit a 2)) (negb (bit a 3)) (negb (bit a 4)) (negb (bit a 5))) 64 = BOOT_TT_PLAIN.
Proof. exact boot_tables. Qed.
Print Assumptions C12_boot_guards_are_the_source_guards.
Theorem C12_mqtt_boot_cfgmode_iff_incomplete_or_locked : forall a,
  let c := bootcfg_of_ints a in
  (mboot_wire a = [mk 0 [0] []] <-> (complete c = false \/ (bc_en c = true /\ bc_locked c = true))) /\
  (mboot_wire a <> [mk 0 [0] []] -> mboot_wire a = [mk 9 [if bc_en c then 2 else 1] []]).
Proof. exact mqtt_boot_wire_thm. Qed.
Print Assumptions C12_mqtt_boot_cfgmode_iff_incomplete_or_locked.
Example C12_mqtt_boot_nonvacuous :
  mboot_wire [1; 1; 0; 1; 1; 1; 0; 0] = [mk 9 [2] []] /\
  mboot_wire [1; 1; 0; 1; 1; 1; 1; 0] = [mk 9 [2] []] /\
  mboot_wire [1; 0; 0; 1; 1; 1; 0; 0] = [mk 0 [0] []] /\
  mboot_wire [1; 0; 0; 1; 1; 1; 1; 0] = [mk 0 [0] []] /\
  mboot_wire [1; 0; 0; 1; 1; 1; 1; 1] = [mk 9 [2] []] /\
  mboot_wire [0; 0; 0; 1; 1; 1; 1; 0] = [mk 9 [1] []] /\
  mboot_wire [0; 0; 0; 1; 1; 1; 0; 1] = [mk 0 [0] []] /\
  mboot_wire [1; 0; 1; 1; 1; 1; 1; 1] = [mk 0 [0] []].
Proof. exact mqtt_boot_examples. Qed.
Print Assumptions C12_mqtt_boot_nonvacuous.
