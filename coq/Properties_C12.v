From Coq Require Import List ZArith.
Import ListNotations.
From V Require Import Base.Bytes Gen.C12Consts C12.Model C12.Proofs.
Local Open Scope Z_scope.
Theorem C12_placeholder : run [] = [].
Proof. exact placeholder_thm. Qed.
Print Assumptions C12_placeholder.
