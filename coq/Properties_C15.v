(* C15 — the configuration page never reveals stored secrets; it is a terminated string that fits
   the buffer allocated for it.  Property theorems only (proofs in C15/Proofs.v).

   Vocabulary (C15/Model.v): `page sg v e add` = (allocation size, truncation flag, C string left in the
   buffer) of variant v (0-5 SUPLA page: {plain, CFGBTN, BTN1_2} x {__FOTA, no __FOTA}; 6 MQTT page) for
   environment e = (configuration image, dev_name, mac, last state, data_saved) and the board's
   additional-settings text `add`; `observable` adds what supla_esp_http_ok hands to espconn_sent.
   `sg` is the signedness of plain `char` (true on the host, false on xtensa): every theorem holds for both. *)
From Coq Require Import List ZArith.
Import ListNotations.
From V Require Import Base.Bytes Gen.HtmlTemplates C15.Model C15.Proofs.
Local Open Scope Z_scope.

(* Secrecy as non-dependence: two stored configurations that agree on everything except the secrets
   (WIFI_PWD, LocationPwd/Password, AuthKey, and the bytes of Email/Username behind its terminator, where
   the overflow part of a long password lives) produce the same allocation size and the same bytes on the
   wire, for every page variant, device name, MAC, last-state text, data_saved flag and additional
   settings.  Hypothesis wf_cfg: the four text fields the page prints are terminated inside their field. *)
Theorem C15_noninterference : forall sg v c1 c2 nm mc stt d add,
  wf_cfg c1 -> low_equiv c1 c2 ->
  observable sg v (mkenv c1 nm mc stt d) add = observable sg v (mkenv c2 nm mc stt d) add.
Proof. exact C15_noninterference_thm. Qed.
Print Assumptions C15_noninterference.

(* The page fits: for every configuration image made of bytes (terminated or not), every variant and every
   input, nothing is truncated, the complete text is strictly shorter than the allocation, and the buffer
   holds a terminated string (its C string plus the terminator fit). *)
Theorem C15_fits_and_terminated : forall sg v e add,
  bytes_ok (cfg e) -> bytes_ok (mac e) ->
  let '(n, tr, html) := page sg v e add in
  tr = 0 /\ html = cstr (full_page sg v e add) /\ len (full_page sg v e add) < n /\ len html + 1 <= n.
Proof. exact C15_fits_and_terminated_thm. Qed.
Print Assumptions C15_fits_and_terminated.

(* When dev_name, last state and the additional settings are C strings, the page contains no NUL:
   what is sent is the complete page. *)
Theorem C15_page_complete : forall sg v e add,
  bytes_ok (cfg e) -> bytes_ok (mac e) -> nonul (name e) -> nonul (state e) -> nonul add ->
  let '(n, tr, html) := page sg v e add in
  html = full_page sg v e add /\ nonul html /\ len html + 1 <= n.
Proof. exact C15_page_complete_thm. Qed.
Print Assumptions C15_page_complete.

(* The generated format strings use only the modelled conversions (%s %i %d %02X %%) and the transcribed
   argument lists have the same number and kinds of arguments as the format strings have conversions. *)
Theorem C15_templates_wellformed :
  tmpl_ok T0 (spec 0) = true /\ tmpl_ok T1 (spec 1) = true /\ tmpl_ok T2 (spec 2) = true /\
  tmpl_ok T3 (spec 3) = true /\ tmpl_ok T4 (spec 4) = true /\ tmpl_ok T5 (spec 5) = true /\
  tmpl_ok MQ_MAIN spec_mqtt = true /\ tmpl_ok HTTP_HDR [S_lit HTTP_OK; S_len []] = true.
Proof. exact C15_templates_wellformed_thm. Qed.
Print Assumptions C15_templates_wellformed.

(* wf_cfg is needed and the model is not blind: with WIFI_SSID filled to its last byte the SUPLA and the
   MQTT page run into WIFI_PWD and show the password. *)
Example C15_wf_needed_example :
  low_equiv ex_bad1 ex_bad2 /\ ~ wf_cfg ex_bad1 /\
  (let '(_, _, sent1) := observable true 0 (mkenv ex_bad1 [] [] [] 0) [] in
   let '(_, _, sent2) := observable true 0 (mkenv ex_bad2 [] [] [] 0) [] in
   sent1 <> sent2 /\ infixb str_hunter sent1 = true /\ infixb str_hunter sent2 = false) /\
  (let '(_, _, sent1) := observable true 6 (mkenv ex_bad1 [] [] [] 0) [] in infixb str_hunter sent1 = true).
Proof. exact C15_wf_needed_example_thm. Qed.
Print Assumptions C15_wf_needed_example.

(* the hypotheses are satisfiable by two different configurations (long password with overflow behind the
   e-mail, different Wi-Fi passwords and AuthKeys) *)
Example C15_hypotheses_satisfiable :
  wf_cfg ex_c1 /\ low_equiv ex_c1 ex_c2 /\ ex_c1 <> ex_c2 /\ bytes_ok ex_c1 /\ len ex_c1 = CFG_SIZE /\
  forall v, observable true v (mkenv ex_c1 [] [] [] 1) [] = observable true v (mkenv ex_c2 [] [] [] 1) [].
Proof. exact C15_hypotheses_satisfiable_thm. Qed.
Print Assumptions C15_hypotheses_satisfiable.

(* "... and after any saved form": composition with the form handler of C14.  For every device state that satisfies
   C14's dev_ok and every sequence of TCP segments handled by the (repaired) supla_esp_recv_callback, the stored
   configuration has its Email/Username terminated in place (proved: C14_no_fault), and if WIFI_SSID, Server and
   MqttTopicPrefix are terminated in place as well, every page rendered from it is independent of the secrets.
   (Superseded by C15_after_saved_form below, which needs no hypothesis on those three fields; kept as proved.)
   Their termination is additionally enforced by the monitors of C14 ("X is no longer NUL-terminated inside its
   n bytes") and C15 (FORM events: flip test and literal test on the pages after the save) and by the byte
   comparison of the composed model (C14.Model.recv + page) with the real code.
   *)
Theorem C15_after_saved_form_partial : forall sg sgf d segs,
  C14.Proofs.dev_ok d ->
  let c1 := stored_after sgf d segs in
  terminated c1 OFF_EMAIL SZ_EMAIL /\
  (terminated c1 OFF_SSID SZ_SSID -> terminated c1 OFF_SERVER SZ_SERVER -> terminated c1 OFF_PREFIX SZ_PREFIX ->
   forall v c2 nm mc stt dd add, low_equiv c1 c2 ->
     observable sg v (mkenv c1 nm mc stt dd) add = observable sg v (mkenv c2 nm mc stt dd) add).
Proof. exact C15_after_saved_form_partial_thm. Qed.
Print Assumptions C15_after_saved_form_partial.

(* "... and after any saved form", full statement.  For every device state whose text fields are terminated in
   place (C14's dev_ok: Email/Username, parser idle; dev_ok2: WIFI_SSID, WIFI_PWD, Server, MqttTopicPrefix) and every
   sequence of TCP segments handled by the repaired supla_esp_recv_callback, the stored configuration satisfies wf_cfg
   (C14_fields_terminated_in_place), hence every page rendered from it is independent of the stored secrets
   (C15_noninterference). *)
Theorem C15_after_saved_form : forall sg sgf d segs,
  C14.Proofs.dev_ok d -> C14.Fields.dev_ok2 d ->
  let c1 := stored_after sgf d segs in
  wf_cfg c1 /\
  forall v c2 nm mc stt dd add, low_equiv c1 c2 ->
    observable sg v (mkenv c1 nm mc stt dd) add = observable sg v (mkenv c2 nm mc stt dd) add.
Proof. exact C15_after_saved_form_thm. Qed.
Print Assumptions C15_after_saved_form.

(* The last-state text is not only an arbitrary input: the firmware writes it itself.  `state_of c log` is the text
   after a history `log` of case-chosen messages, supla_esp_wifi_station_connect and station status polls
   (supla_esp_wifi_check_status), with the messages taken from the GENERATED call sites (Gen/StateSites.v: a call site
   of supla_esp_set_state whose argument is WIFI_PWD / Password / AuthKey, or of unknown shape, is a translator error;
   `wifi_sites_public` re-proves on every run that each remaining site formats at most a public text field).
   Secrecy including that sink: two low-equivalent configurations produce the same last-state text and the same pages. *)
Theorem C15_noninterference_firmware_state : forall sg v c1 c2 nm mc log d add,
  wf_cfg c1 -> low_equiv c1 c2 ->
  observable sg v (mkenv c1 nm mc (state_of c1 log) d) add = observable sg v (mkenv c2 nm mc (state_of c2 log) d) add.
Proof. exact C15_noninterference_firmware_state_thm. Qed.
Print Assumptions C15_noninterference_firmware_state.
